package main

// Persistent SMT solver process (z3 -in / z3-new -in / cvc5 --incremental).
// One path = one (reset) epoch: path-condition conjuncts are asserted at level
// 0 as they are added, each query is push/assert/check-sat/pop.

import (
	"bufio"
	"fmt"
	"io"
	"os"
	"os/exec"
	"strconv"
	"strings"
	"time"
)

type Verdict int

const (
	Unsat Verdict = iota
	Sat
	Unknown
)

func (v Verdict) String() string { return [...]string{"unsat", "sat", "unknown"}[v] }

type Solver struct {
	name    string
	cmd     *exec.Cmd
	in      io.WriteCloser
	out     *bufio.Reader
	ts      *TermStore
	emitted map[*Term]bool
	declUF  map[string]bool
	timeout int // ms per query
	logf    *os.File

	scoped   []*Term
	gen      int // incremented whenever the process state is lost (Reset or restart)
	hardKill bool

	// statistics
	nQueries, nSat, nUnsat, nUnknown, nRestarts int
	solverTime                       time.Duration
	errLines                         []string
}

func solverArgs(name string, timeoutMs int) (string, []string) {
	switch name {
	case "z3":
		return "z3", []string{"-in", fmt.Sprintf("-t:%d", timeoutMs)}
	case "z3-new":
		return "z3-new", []string{"-in", fmt.Sprintf("-t:%d", timeoutMs)}
	case "cvc5":
		return "cvc5", []string{"--incremental", "--lang=smt2", fmt.Sprintf("--tlimit-per=%d", timeoutMs), "--produce-models"}
	case "cvc5-int":
		return "cvc5", []string{"--incremental", "--lang=smt2", fmt.Sprintf("--tlimit-per=%d", timeoutMs), "--produce-models", "--solve-bv-as-int=sum"}
	}
	panic("unknown solver " + name)
}

func NewSolver(name string, ts *TermStore, timeoutMs int) *Solver {
	s := &Solver{name: name, ts: ts, timeout: timeoutMs}
	s.start()
	return s
}

func (s *Solver) start() {
	bin, args := solverArgs(s.name, s.timeout)
	s.cmd = exec.Command(bin, args...)
	var err error
	s.in, err = s.cmd.StdinPipe()
	if err != nil {
		panic(err)
	}
	op, err := s.cmd.StdoutPipe()
	if err != nil {
		panic(err)
	}
	s.cmd.Stderr = s.cmd.Stdout
	s.out = bufio.NewReaderSize(op, 1<<20)
	if err := s.cmd.Start(); err != nil {
		panic(err)
	}
	if p := os.Getenv("GSE_SMTLOG"); p != "" && s.logf == nil {
		s.logf, _ = os.Create(fmt.Sprintf("%s.%d.smt2", p, s.cmd.Process.Pid))
	}
	s.Reset()
}

func (s *Solver) Close() {
	if s.cmd != nil {
		s.in.Close()
		s.cmd.Process.Kill()
		s.cmd.Wait()
		s.cmd = nil
	}
}

func (s *Solver) send(str string) {
	if s.logf != nil {
		s.logf.WriteString(str)
	}
	if _, err := io.WriteString(s.in, str); err != nil {
		panic(solverDied{fmt.Sprintf("solver %s: write failed: %v", s.name, err)})
	}
}

func (s *Solver) Reset() {
	s.gen++
	s.emitted = map[*Term]bool{}
	s.declUF = map[string]bool{}
	s.send("(reset)\n")
	if strings.HasPrefix(s.name, "z3") {
		s.send("(set-option :produce-models true)\n")
	} else {
		s.send("(set-logic ALL)\n")
	}
}

func (s *Solver) refName(t *Term) string {
	switch t.op {
	case OpConst:
		return s.ts.body(t, nil)
	case OpVar, OpArrVar:
		return smtName(t.name)
	}
	return fmt.Sprintf("t%d", t.id)
}

// emit declares/defines everything t depends on (iteratively, post-order).
func (s *Solver) emit(t *Term, sb *strings.Builder) {
	if s.emitted[t] {
		return
	}
	type fr struct {
		t *Term
		i int
	}
	stack := []fr{{t, 0}}
	for len(stack) > 0 {
		f := &stack[len(stack)-1]
		if s.emitted[f.t] {
			stack = stack[:len(stack)-1]
			continue
		}
		if f.i < len(f.t.args) {
			a := f.t.args[f.i]
			f.i++
			if !s.emitted[a] {
				stack = append(stack, fr{a, 0})
			}
			continue
		}
		tt := f.t
		stack = stack[:len(stack)-1]
		s.emitted[tt] = true
		switch tt.op {
		case OpConst:
		case OpVar, OpArrVar:
			fmt.Fprintf(sb, "(declare-const %s %s)\n", smtName(tt.name), sortOf(tt.w))
		default:
			if tt.op == OpUF && !s.declUF[tt.name] {
				s.declUF[tt.name] = true
				sig := s.ts.ufSigs[tt.name]
				if len(tt.args) == 0 {
					fmt.Fprintf(sb, "(declare-const %s %s)\n", smtName(tt.name), sortOf(tt.w))
				} else {
					sb.WriteString("(declare-fun " + smtName(tt.name) + " (")
					for _, w := range sig[:len(sig)-1] {
						sb.WriteString(sortOf(w) + " ")
					}
					sb.WriteString(") " + sortOf(sig[len(sig)-1]) + ")\n")
				}
			}
			fmt.Fprintf(sb, "(define-fun t%d () %s %s)\n", tt.id, sortOf(tt.w), s.ts.body(tt, s.refName))
		}
	}
}

// Assert adds a permanent (until Reset) assertion.
func (s *Solver) Assert(t *Term) {
	var sb strings.Builder
	s.emit(t, &sb)
	fmt.Fprintf(&sb, "(assert %s)\n", s.refName(t))
	s.send(sb.String())
}

type solverDied struct{ msg string }

func (s *Solver) readLine() string {
	line, err := s.out.ReadString('\n')
	if err != nil {
		panic(solverDied{fmt.Sprintf("solver %s: read failed: %v (partial %q)", s.name, err, line)})
	}
	return strings.TrimSpace(line)
}

func (s *Solver) restart() {
	if s.cmd != nil {
		s.in.Close()
		s.cmd.Process.Kill()
		s.cmd.Wait()
		s.cmd = nil
	}
	s.nRestarts++
	s.start()
}

// Check asks whether the current assertions plus extra are satisfiable.
// If keep is true and the result is sat, the solver stays in the pushed state so
// that GetValues can be called; the caller must then call Pop.
func (s *Solver) Check(extra []*Term, keep bool) (v Verdict) {
	// hard wall-clock limit: the solvers' own soft timeouts are not always honoured
	proc := s.cmd.Process
	killed := false
	wd := time.AfterFunc(time.Duration(s.timeout+s.timeout/2+2000)*time.Millisecond, func() { killed = true; proc.Kill() })
	defer wd.Stop()
	defer func() {
		if r := recover(); r != nil {
			if _, ok := r.(solverDied); ok || killed {
				s.restart()
				s.nQueries++
				s.nUnknown++
				v = Unknown
				return
			}
			panic(r)
		}
	}()
	return s.check1(extra, keep)
}

func (s *Solver) check1(extra []*Term, keep bool) Verdict {
	var sb strings.Builder
	for _, t := range extra {
		s.emit(t, &sb)
	}
	sb.WriteString("(push 1)\n")
	for _, t := range extra {
		fmt.Fprintf(&sb, "(assert %s)\n", s.refName(t))
	}
	sb.WriteString("(check-sat)\n")
	t0 := time.Now()
	s.send(sb.String())
	var v Verdict
	for {
		line := s.readLine()
		if line == "" {
			continue
		}
		switch {
		case line == "sat":
			v = Sat
		case line == "unsat":
			v = Unsat
		case line == "unknown" || line == "timeout":
			v = Unknown
		default:
			// (error ...) or anything unexpected: record, keep reading for the verdict
			s.errLines = append(s.errLines, line)
			if len(s.errLines) > 50 {
				s.errLines = s.errLines[:50]
			}
			if strings.HasPrefix(line, "(error") {
				// an error poisons the query; there may or may not be a verdict line after it.
				// z3 continues and answers; treat the whole query as unknown.
				v = Unknown
				// try to consume the verdict that follows
				continue
			}
			continue
		}
		break
	}
	if len(s.errLines) > 0 && v != Unknown {
		// errors seen earlier in this epoch make later answers untrustworthy
		v = Unknown
	}
	s.solverTime += time.Since(t0)
	s.nQueries++
	switch v {
	case Sat:
		s.nSat++
	case Unsat:
		s.nUnsat++
	default:
		s.nUnknown++
	}
	if !(keep && v == Sat) {
		s.send("(pop 1)\n")
	}
	return v
}

func (s *Solver) Pop() {
	s.send("(pop 1)\n")
	for _, t := range s.scoped {
		delete(s.emitted, t)
		if t.op == OpUF {
			delete(s.declUF, t.name)
		}
	}
	s.scoped = nil
}

// GetValues evaluates scalar terms in the current model (after Check(..., keep=true) == Sat).
func (s *Solver) GetValues(terms []*Term) []uint64 {
	out := make([]uint64, len(terms))
	// terms mentioning symbols the solver has never seen: define them and re-check
	var sbd strings.Builder
	before := map[*Term]bool{}
	for t := range s.emitted {
		before[t] = true
	}
	for _, t := range terms {
		if !s.emitted[t] {
			s.emit(t, &sbd)
		}
	}
	// these definitions live in the pushed scope and disappear at Pop
	for t := range s.emitted {
		if !before[t] {
			s.scoped = append(s.scoped, t)
		}
	}
	if sbd.Len() > 0 {
		sbd.WriteString("(check-sat)\n")
		s.send(sbd.String())
		for {
			line := s.readLine()
			if line == "sat" {
				break
			}
			if line == "unsat" || line == "unknown" || strings.HasPrefix(line, "(error") {
				panic(fmt.Sprintf("get-value: re-check after late declarations answered %q", line))
			}
		}
	}
	const chunk = 256
	for base := 0; base < len(terms); base += chunk {
		end := min(base+chunk, len(terms))
		var sb strings.Builder
		sb.WriteString("(get-value (")
		for _, t := range terms[base:end] {
			if !s.emitted[t] {
				// new definitions are not allowed between check-sat and get-value in some
				// solvers; print the term inline instead.
				sb.WriteString(s.inline(t) + " ")
			} else {
				sb.WriteString(s.refName(t) + " ")
			}
		}
		sb.WriteString("))\n")
		s.send(sb.String())
		// read a balanced s-expression
		txt := s.readSexp()
		vals := parseValues(txt)
		if len(vals) != end-base {
			panic(fmt.Sprintf("get-value: expected %d values, got %d: %s", end-base, len(vals), txt))
		}
		copy(out[base:end], vals)
	}
	return out
}

func (s *Solver) inline(t *Term) string {
	return s.ts.body(t, func(a *Term) string {
		if s.emitted[a] {
			return s.refName(a)
		}
		return s.inline(a)
	})
}

func (s *Solver) readSexp() string {
	var sb strings.Builder
	depth := 0
	started := false
	for {
		line, err := s.out.ReadString('\n')
		if err != nil {
			panic("solver read: " + err.Error())
		}
		inBar := false
		for _, c := range line {
			switch {
			case c == '|':
				inBar = !inBar
			case inBar:
			case c == '(':
				depth++
				started = true
			case c == ')':
				depth--
			}
		}
		sb.WriteString(line)
		if started && depth <= 0 {
			break
		}
	}
	return sb.String()
}

// parseValues extracts, in order, the value of each (term value) pair.
func parseValues(txt string) []uint64 {
	// tokens: the value is the last token before each closing of a depth-2 list
	var vals []uint64
	depth := 0
	i := 0
	last := ""
	for i < len(txt) {
		c := txt[i]
		switch {
		case c == '(':
			depth++
			i++
		case c == ')':
			if depth == 2 {
				vals = append(vals, parseSMTValue(last))
			}
			depth--
			i++
		case c == ' ' || c == '\n' || c == '\t' || c == '\r':
			i++
		case c == '|':
			j := i + 1
			for j < len(txt) && txt[j] != '|' {
				j++
			}
			last = txt[i : j+1]
			i = j + 1
		default:
			j := i
			for j < len(txt) && !strings.ContainsRune("() \n\t\r", rune(txt[j])) {
				j++
			}
			tok := txt[i:j]
			if depth == 2 || strings.HasPrefix(tok, "#") || tok == "true" || tok == "false" {
				if depth == 2 {
					last = tok
				}
			}
			if depth > 2 {
				// nested value forms such as (_ bv5 32)
				if strings.HasPrefix(tok, "bv") {
					last = tok
				}
			}
			i = j
		}
	}
	return vals
}

func parseSMTValue(tok string) uint64 {
	switch {
	case tok == "true":
		return 1
	case tok == "false":
		return 0
	case strings.HasPrefix(tok, "#x"):
		v, _ := strconv.ParseUint(tok[2:], 16, 64)
		return v
	case strings.HasPrefix(tok, "#b"):
		v, _ := strconv.ParseUint(tok[2:], 2, 64)
		return v
	case strings.HasPrefix(tok, "bv"):
		v, _ := strconv.ParseUint(tok[2:], 10, 64)
		return v
	}
	return 0
}
