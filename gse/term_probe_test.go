package main

import (
	"fmt"
	"testing"
)

func TestProbeRoundTrip(t *testing.T) {
	ts := NewTermStore()
	v := ts.Add(ts.Var("o", 32), ts.Const(32, 5))
	var bs [4]*Term
	for i := 0; i < 4; i++ {
		// byte(v >> (8*i))
		bs[i] = ts.Extract(ts.LShr(v, ts.Const(32, uint64(8*i))), 7, 0)
		fmt.Println("byte", i, ts.Show(bs[i]))
	}
	// uint32(b0) | uint32(b1)<<8 | uint32(b2)<<16 | uint32(b3)<<24
	r := ts.ZExt(bs[0], 32)
	for i := 1; i < 4; i++ {
		sh := ts.Shl(ts.ZExt(bs[i], 32), ts.Const(32, uint64(8*i)))
		fmt.Println("shifted", i, ts.Show(sh))
		r = ts.Or(r, sh)
		fmt.Println("or", i, ts.Show(r))
	}
	if r != v {
		t.Fatalf("no fold: %s", ts.Show(r))
	}
}
