package main

// Channels, select, goroutines (sequential mode: a `go` statement is recorded and driven
// explicitly by the harness, blocking operations with nothing ready end the path as "blocked";
// goroutine mode: cooperative scheduler below), write journal and lock monitor.

import (
	"fmt"
	"go/types"
	"strings"

	"golang.org/x/tools/go/ssa"
)

// ---------- goroutine mode (DESIGN.md §2.4) ----------
//
// Cooperative scheduling: a symbolic goroutine is a Go goroutine running the interpreter on its
// own frame stack; exactly one runs at a time (baton passing). Context switches happen only at
// synchronisation operations (channel operations, select, close, mutex lock/unlock, go, timer
// operations, goroutine exit). A switch away from a goroutine that could continue is a
// pre-emption and is bounded; switches when the current goroutine blocks are always explored.
// Virtual time advances only when every goroutine is blocked.

type Gor struct {
	id      int
	name    string
	done    bool
	blocked bool
	ready   func() bool
	resume  chan struct{}
	cur     *Frame
	depth   int
	why     string
	main    bool
}

type selCase struct {
	c    *ChanObj
	send bool
	val  Value
}

type selState struct {
	done bool
	idx  int
	val  Value
	ok   bool
}

type waiter struct {
	g    *Gor
	sel  *selState
	idx  int
	send bool
	val  Value
}

type vtimer struct {
	c      *ChanObj
	when   *Term // virtual time (ns, 64-bit, may be symbolic)
	active bool
	id     int
}

type killedGor struct{}

func (ex *Exec) gmodeOn() bool { return ex.sched != nil }

type scheduler struct {
	gors         []*Gor
	cur          *Gor
	preemptLeft  int
	timers       []*vtimer
	now          *Term
	asyncTimers  bool
	dead         bool
	abort        *pathEnd
	abortPanic   interface{}
	quiesceWait  bool
	quiesceUntil *Term
	switches     int
}

func (ex *Exec) startGoroutineMode(preempt int, asyncTimers bool) {
	m := &Gor{id: 0, name: "main", resume: make(chan struct{}, 1), main: true}
	ex.sched = &scheduler{gors: []*Gor{m}, cur: m, preemptLeft: preempt, now: ex.c64(1 << 40), asyncTimers: asyncTimers}
}

// killGoroutines releases every parked goroutine at the end of a path.
func (ex *Exec) killGoroutines() {
	if ex.sched == nil {
		return
	}
	ex.sched.dead = true
	for _, g := range ex.sched.gors {
		if !g.main && !g.done {
			select {
			case g.resume <- struct{}{}:
			default:
			}
		}
	}
}

func (ex *Exec) spawn(pf preparedFn, args []Value, site ssa.Instruction) {
	var fv Value
	switch {
	case pf.method != nil:
		fv = &ClosureV{fn: pf.method}
	case pf.closure != nil:
		fv = pf.closure
	default:
		panic(pathEnd{kind: endUnsupported, msg: "go builtin"})
	}
	ex.counters["go"]++
	if !ex.gmodeOn() {
		ex.gos = append(ex.gos, goCall{fn: fv, args: args})
		return
	}
	sc := ex.sched
	g := &Gor{id: len(sc.gors), resume: make(chan struct{}, 1)}
	if c, ok := fv.(*ClosureV); ok && c.fn != nil {
		g.name = c.fn.Name()
	}
	sc.gors = append(sc.gors, g)
	go func() {
		<-g.resume
		defer func() {
			r := recover()
			g.done = true
			if sc.dead {
				return
			}
			if r != nil {
				if _, killed := r.(killedGor); killed {
					return
				}
				// a path end or an executor panic inside a goroutine ends the whole path
				if pe, ok := r.(pathEnd); ok {
					sc.abort = &pe
				} else {
					sc.abortPanic = r
				}
				sc.dead = true
				sc.gors[0].resume <- struct{}{}
				return
			}
			// normal exit: hand the baton on
			ex.schedule(true)
		}()
		if sc.dead {
			panic(killedGor{})
		}
		ex.cur, ex.depth = nil, 0
		ex.callValue(nil, fv, args, site)
	}()
	ex.yield("go")
}

// yield is a scheduling point at which the current goroutine could continue.
func (ex *Exec) yield(why string) {
	if !ex.gmodeOn() {
		return
	}
	ex.schedule(false)
}

// block parks the current goroutine until ready() holds.
func (ex *Exec) block(why string, ready func() bool) {
	g := ex.sched.cur
	g.blocked, g.ready, g.why = true, ready, why
	ex.schedule(false)
	g.blocked, g.ready = false, nil
}

func (ex *Exec) runnable() []*Gor {
	var r []*Gor
	for _, g := range ex.sched.gors {
		if g.done {
			continue
		}
		if g.blocked && !(g.ready != nil && g.ready()) {
			continue
		}
		r = append(r, g)
	}
	return r
}

// fireTimers delivers every timer due at the current virtual time.
func (ex *Exec) fireTimers() {
	sc := ex.sched
	for _, t := range sc.timers {
		if t.active && ex.branch(ex.ts.Sle(t.when, sc.now)) {
			t.active = false
			// a timer is never delivered at exactly its deadline: model the wake-up latency
			sc.now = ex.ts.Add(sc.now, ex.c64(1000))
			if len(t.c.buf) < 1 {
				t.c.buf = append(t.c.buf, ex.timeVal(sc.now))
			}
			ex.counters["timer-fired"]++
		}
	}
}

// schedule picks the goroutine that runs next. exiting: the caller is finished.
func (ex *Exec) schedule(exiting bool) {
	sc := ex.sched
	me := sc.cur
	if sc.dead {
		panic(killedGor{})
	}
	for {
		run := ex.runnable()
		var next *Gor
		meRunnable := false
		for _, g := range run {
			if g == me && !exiting {
				meRunnable = true
			}
		}
		switch {
		case len(run) == 0:
			// everyone is blocked: let virtual time pass to the next timer
			var nt *vtimer
			for _, t := range sc.timers {
				if t.active && (nt == nil || ex.branch(ex.ts.Slt(t.when, nt.when))) {
					nt = t
				}
			}
			if nt != nil && !(sc.quiesceWait && ex.branch(ex.ts.Slt(sc.quiesceUntil, nt.when))) {
				if ex.branch(ex.ts.Slt(sc.now, nt.when)) {
					sc.now = nt.when
				}
				// timers become due only when time passes: deliver them here
				ex.fireTimers()
				continue
			}
			// quiescent
			mg := sc.gors[0]
			if sc.quiesceWait {
				sc.quiesceWait = false
				next = mg
			} else {
				pe := pathEnd{kind: endBlocked, msg: "deadlock: every goroutine is blocked: " + ex.blockedSummary()}
				if me.main && !exiting {
					panic(pe)
				}
				sc.abort = &pe
				sc.dead = true
				mg.resume <- struct{}{}
				if exiting {
					return
				}
				panic(killedGor{})
			}
		default:
			// delay-bounded scheduling: the default is deterministic (continue the current goroutine,
			// otherwise the next runnable one in round-robin order); deviating from it by k places
			// costs k units of the budget
			var cands []*Gor
			if meRunnable && !me.blocked {
				cands = append(cands, me)
			}
			n := len(sc.gors)
			for d := 1; d <= n; d++ {
				g := sc.gors[(me.id+d)%n]
				if g == me && meRunnable && !me.blocked {
					continue
				}
				for _, r := range run {
					if r == g && (len(cands) == 0 || cands[0] != g) {
						cands = append(cands, g)
					}
				}
			}
			opts := 1 + sc.preemptLeft
			if opts > len(cands) {
				opts = len(cands)
			}
			k := ex.choose(opts)
			if k > 0 {
				sc.preemptLeft -= k
				ex.counters["preemptions"] += k
			}
			next = cands[k]
		}
		if next == me && !exiting {
			return
		}
		sc.cur = next
		sc.switches++
		myCur, myDepth := ex.cur, ex.depth
		next.resume <- struct{}{}
		if exiting {
			return
		}
		<-me.resume
		if sc.dead {
			if me.main {
				if sc.abortPanic != nil {
					panic(sc.abortPanic)
				}
				if sc.abort != nil {
					panic(*sc.abort)
				}
			}
			panic(killedGor{})
		}
		sc.cur = me
		ex.cur, ex.depth = myCur, myDepth
		return
	}
}

func (ex *Exec) blockedSummary() string {
	s := ""
	for _, g := range ex.sched.gors {
		if !g.done && g.blocked {
			s += fmt.Sprintf("[%s: %s] ", g.name, g.why)
		}
	}
	return s
}

// ---- channels ----

func caseReady(c selCase) bool {
	if c.c == nil {
		return false
	}
	if c.send {
		return c.c.closed || len(c.c.buf) < c.c.cap || len(c.c.recvq) > 0
	}
	return len(c.c.buf) > 0 || c.c.closed || len(c.c.sendq) > 0
}

func removeWaiter(q []*waiter, sel *selState) []*waiter {
	out := q[:0]
	for _, w := range q {
		if w.sel != sel {
			out = append(out, w)
		}
	}
	return out
}

// doSelect implements send, receive and select in both modes.
func (ex *Exec) doSelect(cases []selCase, blocking bool, site ssa.Instruction) (int, Value, bool) {
	if ex.gmodeOn() {
		ex.yield("chan-op")
	}
	for {
		var ready []int
		for i, c := range cases {
			if caseReady(c) {
				ready = append(ready, i)
			}
		}
		if len(ready) > 0 {
			k := ready[ex.choose(len(ready))]
			c := cases[k]
			ch := c.c
			ex.noteWriteOther(ch)
			if c.send {
				if ch.closed {
					ex.implicitPanic("send-on-closed", ex.ts.True, site)
				}
				if len(ch.recvq) > 0 {
					w := ch.recvq[0]
					ch.recvq = ch.recvq[1:]
					w.sel.done, w.sel.idx, w.sel.val, w.sel.ok = true, w.idx, ex.copyVal(c.val), true
				} else {
					ch.buf = append(ch.buf, ex.copyVal(c.val))
				}
				return k, nil, true
			}
			if len(ch.buf) > 0 {
				v := ch.buf[0]
				ch.buf = ch.buf[1:]
				// a sender parked on a full buffered channel can now proceed
				if len(ch.sendq) > 0 {
					w := ch.sendq[0]
					ch.sendq = ch.sendq[1:]
					ch.buf = append(ch.buf, w.val)
					w.sel.done, w.sel.idx, w.sel.ok = true, w.idx, true
				}
				return k, v, true
			}
			if len(ch.sendq) > 0 {
				w := ch.sendq[0]
				ch.sendq = ch.sendq[1:]
				w.sel.done, w.sel.idx, w.sel.ok = true, w.idx, true
				return k, w.val, true
			}
			return k, ex.zero(ch.et), false // closed
		}
		if !blocking {
			return -1, nil, false
		}
		if !ex.gmodeOn() {
			panic(pathEnd{kind: endBlocked, msg: "blocking channel operation at " + ex.posOf(site)})
		}
		// park on every case
		sel := &selState{}
		g := ex.sched.cur
		for i, c := range cases {
			if c.c == nil {
				continue
			}
			w := &waiter{g: g, sel: sel, idx: i, send: c.send, val: c.val}
			if c.send {
				c.c.sendq = append(c.c.sendq, w)
			} else {
				c.c.recvq = append(c.c.recvq, w)
			}
		}
		ex.block("chan@"+ex.posOf(site), func() bool {
			if sel.done {
				return true
			}
			for _, c := range cases {
				if c.c == nil {
					continue
				}
				// buffer/closed state may have changed (timers, close); counterpart queues are handled by the counterpart
				if c.send && (c.c.closed || len(c.c.buf) < c.c.cap) {
					return true
				}
				if !c.send && (len(c.c.buf) > 0 || c.c.closed) {
					return true
				}
			}
			return false
		})
		for _, c := range cases {
			if c.c != nil {
				c.c.sendq = removeWaiter(c.c.sendq, sel)
				c.c.recvq = removeWaiter(c.c.recvq, sel)
			}
		}
		if sel.done {
			return sel.idx, sel.val, sel.ok
		}
	}
}

func (ex *Exec) chanSend(cv Value, v Value, site ssa.Instruction) {
	c, _ := cv.(*ChanObj)
	if c == nil {
		if ex.gmodeOn() {
			ex.block("send on nil channel", func() bool { return false })
		}
		panic(pathEnd{kind: endBlocked, msg: "send on nil channel"})
	}
	ex.doSelect([]selCase{{c: c, send: true, val: v}}, true, site)
}

func (ex *Exec) chanRecv(cv Value, site ssa.Instruction) (Value, bool) {
	c, _ := cv.(*ChanObj)
	if c == nil {
		if ex.gmodeOn() {
			ex.block("recv on nil channel", func() bool { return false })
		}
		panic(pathEnd{kind: endBlocked, msg: "recv on nil channel"})
	}
	_, v, ok := ex.doSelect([]selCase{{c: c}}, true, site)
	return v, ok
}

func (ex *Exec) chanClose(c *ChanObj, site ssa.Instruction) {
	if c == nil {
		ex.implicitPanic("close-nil-chan", ex.ts.True, site)
	}
	if c.closed {
		ex.implicitPanic("close-closed-chan", ex.ts.True, site)
	}
	ex.noteWriteOther(c)
	c.closed = true
	if ex.gmodeOn() {
		ex.yield("close")
	}
}

func (ex *Exec) selectOp(fr *Frame, x *ssa.Select) Value {
	// result tuple: (index int, recvOk bool, r_0 T_0, ... ) for recv states
	cases := make([]selCase, len(x.States))
	out := TupleV{nil, ex.ts.False}
	recvSlot := map[int]int{}
	for i, s := range x.States {
		c, _ := ex.get(fr, s.Chan).(*ChanObj)
		cases[i] = selCase{c: c, send: s.Dir == types.SendOnly}
		if s.Send != nil {
			cases[i].val = ex.get(fr, s.Send)
		}
		if s.Dir != types.SendOnly {
			recvSlot[i] = len(out)
			out = append(out, ex.zero(chanElem(s.Chan)))
		}
	}
	k, v, ok := ex.doSelect(cases, x.Blocking, x)
	if k < 0 {
		out[0] = ex.ts.Const(64, ^uint64(0))
		return out
	}
	out[0] = ex.c64(uint64(k))
	if !cases[k].send {
		out[recvSlot[k]] = v
		out[1] = ex.ts.Bool(ok)
	}
	return out
}

func chanElem(v ssa.Value) types.Type {
	return v.Type().Underlying().(*types.Chan).Elem()
}

// ---------- write journal ----------

func (ex *Exec) noteWriteCell(c *Value) {
	if ex.journal {
		ex.wCells[c] = true
	}
}
func (ex *Exec) noteWriteArr(a *ArrObj) {
	if ex.journal {
		ex.wArrs[a] = true
	}
}
func (ex *Exec) noteWriteOther(o interface{}) {
	if ex.journal {
		ex.wOther[o] = true
	}
}

// reachWritten reports whether anything reachable from v was written since the journal started.
func (ex *Exec) reachWritten(v Value, seen map[interface{}]bool, skip map[interface{}]bool) (bool, string) {
	switch x := v.(type) {
	case Ptr:
		if x.cell != nil {
			return ex.cellWritten(x.cell, seen, skip)
		}
		if x.arr != nil {
			return ex.arrWritten(x.arr, seen, skip)
		}
	case SliceV:
		if x.arr != nil {
			return ex.arrWritten(x.arr, seen, skip)
		}
	case *StructV:
		for i := range x.f {
			if w, why := ex.cellWritten(&x.f[i], seen, skip); w {
				return true, fmt.Sprintf("field %d: %s", i, why)
			}
		}
	case *ArrObj:
		return ex.arrWritten(x, seen, skip)
	case *MapObj:
		if x == nil || seen[x] || skip[x] {
			return false, ""
		}
		seen[x] = true
		if ex.wOther[x] {
			return true, fmt.Sprintf("map#%d", x.id)
		}
		for _, e := range x.entries {
			if e.deleted {
				continue
			}
			if w, why := ex.reachWritten(e.v, seen, skip); w {
				return true, "map value: " + why
			}
		}
	case *ChanObj:
		if x == nil || seen[x] || skip[x] {
			return false, ""
		}
		seen[x] = true
		if ex.wOther[x] {
			return true, fmt.Sprintf("chan#%d", x.id)
		}
	case IfaceV:
		return ex.reachWritten(x.v, seen, skip)
	case *ClosureV:
		if x == nil {
			return false, ""
		}
		for _, e := range x.env {
			if w, why := ex.reachWritten(e, seen, skip); w {
				return true, "closure env: " + why
			}
		}
	}
	return false, ""
}

func (ex *Exec) cellWritten(c *Value, seen, skip map[interface{}]bool) (bool, string) {
	if seen[c] || skip[c] {
		return false, ""
	}
	seen[c] = true
	if ex.wCells[c] {
		return true, "cell"
	}
	return ex.reachWritten(*c, seen, skip)
}

func (ex *Exec) arrWritten(a *ArrObj, seen, skip map[interface{}]bool) (bool, string) {
	if seen[a] || skip[a] {
		return false, ""
	}
	seen[a] = true
	if ex.wArrs[a] {
		return true, fmt.Sprintf("array#%d(%s)", a.id, a.label)
	}
	if a.w < 0 {
		for i := range a.elems {
			if w, why := ex.cellWritten(&a.elems[i], seen, skip); w {
				return true, fmt.Sprintf("elem %d: %s", i, why)
			}
		}
	}
	return false, ""
}

// ---------- lock monitor (C14) ----------

type guardRule struct {
	name  string
	kind  string // mutex | rwmutex | nowrite | atomic
	lock  *Value // mutex cell that must be held
	rw    bool   // RWMutex: reads need R or W, writes need W
	owner string // confined: name of the function whose dynamic extent may access it
}

type arrRange struct {
	a      *ArrObj
	lo, hi int
}

type guardedRange struct {
	lo, hi int
	r      *guardRule
}

type lockMonitor struct {
	ranges  map[*ArrObj][]guardedRange // scalar arrays guarded per index range
	cells   map[*Value]*guardRule
	objs    map[interface{}]*guardRule
	stop    map[interface{}]bool
	reports map[string]bool
}

func (ex *Exec) monitorAccess(c *Value, write bool, site ssa.Instruction) {
	if ex.monitor == nil || !ex.monitorOn {
		return
	}
	if r, ok := ex.monitor.cells[c]; ok {
		ex.checkGuard(r, write, site)
	}
}

// monitorArr: access to element idx of a scalar array. Arrays guarded per range are checked
// against the rule of the range the index falls in (a symbolic index is checked only when the
// array has a single guarded range; otherwise it is counted and skipped).
func (ex *Exec) monitorArr(a *ArrObj, idx *Term, write bool, site ssa.Instruction) {
	if ex.monitor == nil || !ex.monitorOn {
		return
	}
	if rs, ok := ex.monitor.ranges[a]; ok {
		if idx != nil && idx.IsConst() {
			i := int(idx.val)
			for _, g := range rs {
				if i >= g.lo && i < g.hi {
					ex.checkGuard(g.r, write, site)
				}
			}
		} else if len(rs) == 1 {
			ex.checkGuard(rs[0].r, write, site)
		} else {
			ex.counters["guard-range-symbolic-index-skipped"]++
		}
		return
	}
	ex.monitorObj(a, write, site)
}

func (ex *Exec) monitorObj(o interface{}, write bool, site ssa.Instruction) {
	if ex.monitor == nil || !ex.monitorOn {
		return
	}
	if r, ok := ex.monitor.objs[o]; ok {
		ex.checkGuard(r, write, site)
	}
}

func (ex *Exec) checkGuard(r *guardRule, write bool, site ssa.Instruction) {
	ok := false
	switch r.kind {
	case "nowrite":
		ok = !write
	case "atomic":
		ok = false
	case "confined":
		for f := ex.cur; f != nil; f = f.caller {
			if f.fn != nil && f.fn.Name() == r.owner {
				ok = true
				break
			}
		}
	}
	if site != nil && site.Parent() != nil && strings.HasPrefix(site.Parent().Name(), "vf") {
		return // the harness's own reads are not part of the program
	}
	if r.lock != nil {
		if ls := ex.locks[r.lock]; ls != nil {
			if r.rw {
				ok = ls.held || (!write && ls.readers > 0)
			} else {
				ok = ls.held
			}
		}
	}
	if ok {
		ex.counters["guarded-access-ok"]++
		return
	}
	kind := "read"
	if write {
		kind = "write"
	}
	label := fmt.Sprintf("lock/%s/%s@%s", r.name, kind, ex.posOf(site))
	if ex.monitor.reports[label] {
		return
	}
	ex.monitor.reports[label] = true
	msg := "access to " + r.name + " without its lock"
	if r.kind == "confined" {
		msg = "access to " + r.name + " from outside " + r.owner
	}
	ex.violation(label, msg, nil)
}
