package main

// Channels, select, goroutine spawning (sequential mode: a `go` statement is
// recorded and driven explicitly by the harness; blocking operations with
// nothing ready end the path as "blocked"), write journal and lock monitor.

import (
	"fmt"
	"go/types"
	"strings"

	"golang.org/x/tools/go/ssa"
)

type Gor struct {
	id int
}

func (ex *Exec) spawn(pf preparedFn, args []Value, site ssa.Instruction) {
	var fv Value
	switch {
	case pf.method != nil:
		fv = &ClosureV{fn: pf.method}
	case pf.closure != nil:
		fv = pf.closure
	default:
		panic(pathEnd{kind: endUnsupported, msg: "go builtin"})
	}
	ex.gos = append(ex.gos, goCall{fn: fv, args: args})
	ex.counters["go"]++
}

func (ex *Exec) chanSend(cv Value, v Value, site ssa.Instruction) {
	c, _ := cv.(*ChanObj)
	if c == nil {
		panic(pathEnd{kind: endBlocked, msg: "send on nil channel"})
	}
	if c.closed {
		ex.implicitPanic("send-on-closed", ex.ts.True, site)
	}
	ex.noteWriteOther(c)
	if len(c.buf) < c.cap {
		c.buf = append(c.buf, ex.copyVal(v))
		return
	}
	panic(pathEnd{kind: endBlocked, msg: "blocking send at " + ex.posOf(site)})
}

func (ex *Exec) chanRecv(cv Value, site ssa.Instruction) (Value, bool) {
	c, _ := cv.(*ChanObj)
	if c == nil {
		panic(pathEnd{kind: endBlocked, msg: "recv on nil channel"})
	}
	if len(c.buf) > 0 {
		ex.noteWriteOther(c)
		v := c.buf[0]
		c.buf = c.buf[1:]
		return v, true
	}
	if c.closed {
		return ex.zero(c.et), false
	}
	panic(pathEnd{kind: endBlocked, msg: "blocking recv at " + ex.posOf(site)})
}

func (ex *Exec) chanClose(c *ChanObj, site ssa.Instruction) {
	if c == nil {
		ex.implicitPanic("close-nil-chan", ex.ts.True, site)
	}
	if c.closed {
		ex.implicitPanic("close-closed-chan", ex.ts.True, site)
	}
	ex.noteWriteOther(c)
	c.closed = true
}

func (ex *Exec) selectOp(fr *Frame, x *ssa.Select) Value {
	// result tuple: (index int, recvOk bool, r_0 T_0, ... r_n-1 T_n-1) for recv states
	type st struct {
		c    *ChanObj
		send bool
		v    Value
	}
	states := make([]st, len(x.States))
	var ready []int
	for i, s := range x.States {
		c, _ := ex.get(fr, s.Chan).(*ChanObj)
		states[i] = st{c: c, send: s.Dir == types.SendOnly}
		if s.Send != nil {
			states[i].v = ex.get(fr, s.Send)
		}
		if c == nil {
			continue
		}
		if states[i].send {
			if c.closed {
				ready = append(ready, i)
			} else if len(c.buf) < c.cap {
				ready = append(ready, i)
			}
		} else if len(c.buf) > 0 || c.closed {
			ready = append(ready, i)
		}
	}
	// build result with zero recv slots
	out := TupleV{nil, ex.ts.False}
	recvSlot := map[int]int{}
	for i, s := range x.States {
		if s.Dir != types.SendOnly {
			recvSlot[i] = len(out)
			out = append(out, ex.zero(chanElem(s.Chan)))
		}
	}
	if len(ready) == 0 {
		if !x.Blocking {
			out[0] = ex.ts.Const(64, ^uint64(0))
			return out
		}
		panic(pathEnd{kind: endBlocked, msg: "blocking select at " + ex.posOf(x)})
	}
	k := ready[ex.choose(len(ready))]
	out[0] = ex.c64(uint64(k))
	s := states[k]
	if s.send {
		ex.chanSend(s.c, s.v, x)
	} else {
		v, ok := ex.chanRecv(s.c, x)
		out[recvSlot[k]] = v
		out[1] = ex.ts.Bool(ok)
	}
	return out
}

func chanElem(v ssa.Value) types.Type {
	return v.Type().Underlying().(*types.Chan).Elem()
}

// ---------- write journal ----------

func (ex *Exec) noteWriteCell(c *Value) {
	if ex.journal {
		ex.wCells[c] = true
	}
}
func (ex *Exec) noteWriteArr(a *ArrObj) {
	if ex.journal {
		ex.wArrs[a] = true
	}
}
func (ex *Exec) noteWriteOther(o interface{}) {
	if ex.journal {
		ex.wOther[o] = true
	}
}

// reachWritten reports whether anything reachable from v was written since the journal started.
func (ex *Exec) reachWritten(v Value, seen map[interface{}]bool, skip map[interface{}]bool) (bool, string) {
	switch x := v.(type) {
	case Ptr:
		if x.cell != nil {
			return ex.cellWritten(x.cell, seen, skip)
		}
		if x.arr != nil {
			return ex.arrWritten(x.arr, seen, skip)
		}
	case SliceV:
		if x.arr != nil {
			return ex.arrWritten(x.arr, seen, skip)
		}
	case *StructV:
		for i := range x.f {
			if w, why := ex.cellWritten(&x.f[i], seen, skip); w {
				return true, fmt.Sprintf("field %d: %s", i, why)
			}
		}
	case *ArrObj:
		return ex.arrWritten(x, seen, skip)
	case *MapObj:
		if x == nil || seen[x] || skip[x] {
			return false, ""
		}
		seen[x] = true
		if ex.wOther[x] {
			return true, fmt.Sprintf("map#%d", x.id)
		}
		for _, e := range x.entries {
			if e.deleted {
				continue
			}
			if w, why := ex.reachWritten(e.v, seen, skip); w {
				return true, "map value: " + why
			}
		}
	case *ChanObj:
		if x == nil || seen[x] || skip[x] {
			return false, ""
		}
		seen[x] = true
		if ex.wOther[x] {
			return true, fmt.Sprintf("chan#%d", x.id)
		}
	case IfaceV:
		return ex.reachWritten(x.v, seen, skip)
	case *ClosureV:
		if x == nil {
			return false, ""
		}
		for _, e := range x.env {
			if w, why := ex.reachWritten(e, seen, skip); w {
				return true, "closure env: " + why
			}
		}
	}
	return false, ""
}

func (ex *Exec) cellWritten(c *Value, seen, skip map[interface{}]bool) (bool, string) {
	if seen[c] || skip[c] {
		return false, ""
	}
	seen[c] = true
	if ex.wCells[c] {
		return true, "cell"
	}
	return ex.reachWritten(*c, seen, skip)
}

func (ex *Exec) arrWritten(a *ArrObj, seen, skip map[interface{}]bool) (bool, string) {
	if seen[a] || skip[a] {
		return false, ""
	}
	seen[a] = true
	if ex.wArrs[a] {
		return true, fmt.Sprintf("array#%d(%s)", a.id, a.label)
	}
	if a.w < 0 {
		for i := range a.elems {
			if w, why := ex.cellWritten(&a.elems[i], seen, skip); w {
				return true, fmt.Sprintf("elem %d: %s", i, why)
			}
		}
	}
	return false, ""
}

// ---------- lock monitor (C14) ----------

type guardRule struct {
	name string
	kind string // mutex | rwmutex | nowrite | atomic
	lock *Value // mutex cell that must be held
	rw   bool   // RWMutex: reads need R or W, writes need W
}

type lockMonitor struct {
	cells   map[*Value]*guardRule
	objs    map[interface{}]*guardRule
	stop    map[interface{}]bool
	reports map[string]bool
}

func (ex *Exec) monitorAccess(c *Value, write bool, site ssa.Instruction) {
	if ex.monitor == nil || !ex.monitorOn {
		return
	}
	if r, ok := ex.monitor.cells[c]; ok {
		ex.checkGuard(r, write, site)
	}
}

func (ex *Exec) monitorObj(o interface{}, write bool, site ssa.Instruction) {
	if ex.monitor == nil || !ex.monitorOn {
		return
	}
	if r, ok := ex.monitor.objs[o]; ok {
		ex.checkGuard(r, write, site)
	}
}

func (ex *Exec) checkGuard(r *guardRule, write bool, site ssa.Instruction) {
	ok := false
	switch r.kind {
	case "nowrite":
		ok = !write
	case "atomic":
		ok = false
	}
	if site != nil && site.Parent() != nil && strings.HasPrefix(site.Parent().Name(), "vf") {
		return // the harness's own reads are not part of the program
	}
	if r.lock != nil {
		if ls := ex.locks[r.lock]; ls != nil {
			if r.rw {
				ok = ls.held || (!write && ls.readers > 0)
			} else {
				ok = ls.held
			}
		}
	}
	if ok {
		ex.counters["guarded-access-ok"]++
		return
	}
	kind := "read"
	if write {
		kind = "write"
	}
	label := fmt.Sprintf("lock/%s/%s@%s", r.name, kind, ex.posOf(site))
	if ex.monitor.reports[label] {
		return
	}
	ex.monitor.reports[label] = true
	ex.violation(label, "access to "+r.name+" without its lock", nil)
}
