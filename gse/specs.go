package main

// Per-property description of what the registered harnesses cover: bounds,
// assumptions and stubs are part of every claim and are copied into the evidence.

var commonStubs = []string{
	"kcp.currentMs -> harness-controlled symbolic 32-bit clock (constant within one API call unless a slack is stated)",
	"sync.Pool.Get -> fresh 1500-byte buffer with unconstrained contents (ghost ownership); Put marks it recycled",
	"sync/atomic, sync.Mutex/RWMutex/Once, atomic.Value -> sequential models",
	"package initialisers of dependencies are not run; kcp's own init is interpreted",
}

var checkSpecs = map[string]*checkSpec{
	"C20": {
		assumptions: []string{
			"Discard is called with n >= 0 (a negative count is outside its documented domain and no caller passes one)",
			"int is 64 bits (amd64)",
			"capacities outside the checked set are not machine-argued (the code is uniform in the capacity)",
		},
		stubs: commonStubs,
		bounds: map[string]string{
			"quick":    "RingBuffer[uint32], capacity in {8,9,16} with fully symbolic head, tail (every layout: empty, full, wrapped, unwrapped) and symbolic elements; one operation with symbolic arguments (Discard n in [0,2^62], iterator stop count in [1,cap+1]); growth 8->16, 16->32 from every full layout (symbolic head) and 64->128, 1024->1127 from boundary heads; NewRingBuffer(n) for n in [-2^40,64]",
			"thorough": "capacity in {8..17,32,64} symbolic layouts; growth 8,9,16,32 symbolic head and 64,512,1024,1127 from all head positions",
		},
		outside: "capacities not in the set; RingBuffer[segment] is exercised through the KCP harnesses (C01-C05) with concrete layouts",
	},
}
