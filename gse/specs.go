package main

// Per-property description of what the registered harnesses cover: bounds,
// assumptions and stubs are part of every claim and are copied into the evidence.

var commonStubs = []string{
	"kcp.currentMs -> harness-controlled symbolic 32-bit clock (constant within one API call unless a slack is stated)",
	"sync.Pool.Get -> fresh 1500-byte buffer with unconstrained contents (ghost ownership); Put marks it recycled",
	"sync/atomic, sync.Mutex/RWMutex/Once, atomic.Value -> sequential models",
	"package initialisers of dependencies are not run; kcp's own init is interpreted",
}

var kcpStateAssumptions = []string{
	"pre-states are arbitrary within INV_KCP (DESIGN.md §3.1): configuration via the real SetMtu/WndSize/NoDelay with symbolic arguments (windows 1..32768, interval 10..5000, MSS <= 1500), all scalar fields symbolic, queue shapes from a small concrete family",
	"queued payload lengths are fixed small values (0..3 bytes) per slot; payload bytes are unconstrained (pool contents)",
	"the millisecond clock is an arbitrary 32-bit value, constant within one API call",
	"int is 64 bits (amd64)",
}

var checkSpecs = map[string]*checkSpec{
	"C01": {
		assumptions: append([]string{
			"the whole-history statement is the written composition (DESIGN.md §4 C01) of the machine-checked step lemmas L1 (Send), L2 (flush), L4 (Recv) plus the C04/C05 Input steps (no duplicate, nothing outside the window, consecutive delivery queue, nothing deliverable stuck) and the bounded two-endpoint scenarios listed in the evidence; the composition itself is not machine-checked",
			"a message with fragment number 255 cannot be produced by Send (limit 255 fragments) and is excluded in the Recv lemma",
		}, kcpStateAssumptions...),
		stubs: commonStubs,
		bounds: map[string]string{
			"quick":    "L1: Send of 0..7 symbolic bytes with MSS 1..3, stream and message mode, from 3 shapes, and of 254..300 bytes at MSS 1 (fragment limit); L2: full flush from 3 shapes, every emitted PUSH decoded independently and compared with the in-flight segment it names; L4: Recv with buffers 0,1,2,8 from 4 receive shapes with symbolic fragment numbers; L6: UDPSession.Read over 1-2 delivered messages (1 or 5 bytes) with up to 5 reads of 1/3/16 bytes (every split between pending remainder, delivery queue and caller buffer), UDPSession.WriteBuffers of a 2-element vector (0..7 + 0..6 bytes) at MSS 3, stream and message mode; S3 scenario: two real endpoints, MSS 2, two writes (3+1 symbolic bytes), stream and message mode, windows {1,3}x{1,2}, symbolic origins of both sequence spaces and the clock, every fate in {drop, deliver, duplicate, delay one round} for the first 4 datagrams (thorough 6) then a fair network, <= 40 rounds (an idle round moves the clock straight to the sender's next retransmission timer): reader sees a prefix at every step, everything delivered intact, backlog drains; S3 session link: a real dialled UDPSession and a real Listener/accepted session over stub sockets, {no cipher, nonce+CRC path, AEAD} x {no FEC, FEC 2/1 with the abstract MDS codec} x stream/message mode x read buffers of 1/16 bytes, three writes (2+1+2 symbolic bytes), every fate for the first 2 client->server and the first server->client datagram (thorough 3 and 2), retransmission driven by the real update() on a harness clock (100 ms rounds, <= 24): prefix at every Read, everything intact, backlog drains, window limits and datagram sizes at every round",
			"thorough": "same with the larger fate bounds stated above",
		},
		outside: "real sockets and goroutine scheduling (blocking Read/Write paths are C13); the CFB arithmetic (C08) and GF(2^8) arithmetic (abstract MDS codec) are separate; payloads longer than 7 bytes",
	},
	"C02": {
		also: []string{"C01_scenario", "C01_session_link", "C17_one_worker"},
		assumptions: append([]string{
			"liveness is decided as one-step 'nothing can get stuck' lemmas W1-W5 (DESIGN.md §4 C02) plus the bounded scenarios listed in the evidence; 'eventually' beyond the scenario bounds is the written composition",
			"a transmitted segment's timestamp was taken from the same clock less than 2^30 ms ago; per-segment rto <= 64*60000",
			"in message mode a message has no more fragments than the receiver's window (UDPSession.Write always satisfies this)",
		}, kcpStateAssumptions...),
		stubs: commonStubs,
		bounds: map[string]string{
			"quick":    "W1/W4 flush timers from 3 sender shapes, cc on and off; W2 Input of an arbitrary PUSH (symbolic sn incl. duplicates and numbers below rcv_nxt) from 5 receive shapes, and flush with 1..3 owed acks; W5 Check/Update at an arbitrary clock from 3 shapes; W3 is the nothing-deliverable-stuck assertion of the C04 Input/Recv steps; bounded liveness: the C01 scenario asserts that the backlog drains within 40 rounds after at most 4 (thorough 6) faulty datagrams",
			"thorough": "same lemmas; W2 from the full product of receive-side shapes (delivery queue, reorder buffer, owed acks 0..2 each) over an empty and a one-segment send side; the cross-listed scenarios run at their quick bounds",
		},
		outside: "the scheduler's own timing (C17); fault patterns longer than the scenario bound",
	},
	"C03": {
		assumptions: kcpStateAssumptions,
		stubs:       commonStubs,
		bounds: map[string]string{
			"quick":    "P1 flush with the peer's window closed from 4 shapes (cc on/off): nothing admitted or dropped, probe timer armed in [500,120000], WASK whenever expired, back-off monotone; P2/P3 Input(WASK) then flush emits WINS with the true free space, Recv that frees a full queue sets the tell flag (C04 Recv step); P4 any regular segment with wnd>0 clears the probe state and admits queued data; S3 scenario: receiver window 1-2, reader pauses 2-4 rounds while 3 segments are written, every fate for the 4 datagrams around the resume point (thorough 5), cc on/off, symbolic origins: no loss, bounded buffering, completion within 60 rounds",
			"thorough": "same",
		},
		outside: "pauses longer than the scenario bound in the end-to-end runs (the lemma P1 covers any length)",
	},
	"C04": {
		assumptions: append([]string{
			"windows are set before traffic starts (the property's own scope)",
			"Input harnesses carry state on one side of the connection at a time in the quick tier (the flush that Input may trigger is checked on its own from every state); thorough uses the full shape product",
			"congestion-control arithmetic is checked for MSS in {1,4,1376} (non-linear in MSS)",
		}, kcpStateAssumptions...),
		stubs: commonStubs,
		bounds: map[string]string{
			"quick":    "one step (Input of an arbitrary datagram of 0..96 bytes holding at most one complete segment, both packet types, both ackNoDelay; flush FULL/ACKONLY; Recv with buffers 0,1,3,8; Send of 0..9 bytes) from every state of 7 (flush/Recv/Send) or 5+4 (Input) queue shapes with |snd_buf|,|snd_queue|,|rcv_queue|,|rcv_buf|,|acklist| <= 2; MTU in {50,60,1400} (cc: {25,28,1400})",
			"thorough": "same steps from the full product of shapes (each queue 0..2), datagrams with up to two segments; timeout-admission scenario (cc on, fast resend 2, 3 in flight, 6 writes, every fate for the first 4 datagrams, 14 rounds; the label of the timeout-admission assertion carries the fault history) in both tiers",
		},
		outside: "changing window sizes mid-traffic; the timeout-admission clause across several calls and UDPSession.Write admission are separate harnesses (see DESIGN.md)",
	},
	"C05": {
		also: []string{"C01_recv_content"},
		assumptions: append([]string{
			"session level: arbitrary bytes into Listener.packetInput (known / new address) and UDPSession.packetInput after a real connection set-up",
		}, kcpStateAssumptions...),
		stubs: commonStubs,
		bounds: map[string]string{
			"quick":    "fecDecoder.decode of arbitrary bytes (lengths 8..13 and 40, type field data or parity, everything else free) from decoders holding 0..d-1 genuine shards at 4 sequence positions: no panic, shard sets/pool buffers/recovered packets bounded, every held group within the discard horizon; KCP.Input of arbitrary bytes of every length 0..2048 holding at most one complete segment whose len field is a free 32-bit value, both packet types, from 5 receive-side queue shapes; every index/slice/nil/division check on every path is a solver query; per-call growth of pool acquisitions, ack list and held segments asserted <= 1",
			"thorough": "adds datagrams of 0..160 bytes with up to three complete segments (payloads 0..4+) from the full shape product",
		},
		outside: "32-bit int; recvmmsg batch path; datagrams with more than 3 segments (each loop iteration starts from a state covered by the one-segment step)",
	},
	"C06": {
		assumptions: []string{
			"CRC-32's error-detection strength and AES-GCM's unforgeability are mathematics of hash/crc32 and crypto/cipher: the check only uses that the stored value differs from f(bytes) / that Open fails",
			"pre-states are built through the public path (client Write -> real postProcess -> stub socket -> real Listener.packetInput -> accept)",
			"write sets are computed by the executor's store journal over everything reachable from the listener / session (cipher scratch buffers, lock words and SNMP counters excluded); native twin: reflect-based deep snapshot",
		},
		stubs: append([]string{"net.PacketConn/net.Addr -> harness types (WriteTo records, ReadFrom scripted or parked)", "hash/crc32.ChecksumIEEE -> chained uninterpreted function of the bytes", "cipher.AEAD -> documented Seal/Open contract over uninterpreted keystream/tag functions (native replay: real AES-GCM)", "fillRand -> fresh tagged symbolic bytes per call", "go statements are recorded, not run: postProcess is driven by the harness until it blocks (vfRunUntilBlocked); SystemTimedSched replaced by an inert scheduler", "reedsolomon -> abstract MDS codec"}, commonStubs...),
		bounds: map[string]string{
			"quick":    "listener and dialled session, cipher in {none-class (nonce+CRC32 path), AEAD} x FEC {off,(2,1)}, one established session, arbitrary datagram bytes of 14 lengths in 0..64 assumed to fail the configured check, from the known or a new address: empty write set on listener, table, accept queue, sessions; no wake-up; converse: every datagram the real sender emits (data and parity) passes the check",
			"thorough": "adds the real blockCrypt over the uninterpreted 16-byte block function and every length 0..64",
		},
		outside: "corruptions the CRC cannot catch (by the property's own scope); datagrams longer than 64 bytes (the gate is length-independent code)",
	},
	"C11": {
		assumptions: []string{
			"the listener handles datagrams one at a time in one goroutine, so all interleavings of peers' datagrams are all sequences and one step from an arbitrary table covers them (DESIGN.md C11)",
			"pre-states through the public path; two peers at two addresses",
		},
		stubs: append([]string{"net.PacketConn/net.Addr -> harness types (WriteTo records, ReadFrom scripted or parked)", "hash/crc32.ChecksumIEEE -> chained uninterpreted function of the bytes", "cipher.AEAD -> documented Seal/Open contract over uninterpreted keystream/tag functions (native replay: real AES-GCM)", "fillRand -> fresh tagged symbolic bytes per call", "go statements are recorded, not run: postProcess is driven by the harness until it blocks (vfRunUntilBlocked); SystemTimedSched replaced by an inert scheduler", "reedsolomon -> abstract MDS codec"}, commonStubs...),
		bounds: map[string]string{
			"quick":    "listener with sessions at two addresses, cipher {nil, none-class} x FEC {off,(2,1)}: arbitrary bytes (5 lengths) from one address leave the other session, its table entry and the table size untouched; new peer: exactly one session + one accept with its conv/address, second datagram adds nothing, full backlog creates nothing; same address with foreign conv: ignored unless sn==0, then replaced by a fresh session, old stream untouched; KCP.Input with foreign conv returns -1 with empty write set from 7 shapes; defaultReadLoop drops datagrams from another address (string and *net.UDPAddr forms, other IP / other port / other type)",
			"thorough": "same with full shape product for the core clause",
		},
		outside: "the recvmmsg read loop (same filter code shape, not interpretable through ipv4.PacketConn); ghost sessions created by stale traffic after the application closed a session",
	},
	"C19": {
		also:        []string{"C07_session_recovery"},
		assumptions: []string{"pre-states through the public path; FEC (2,1); session MTU 100 so that maximal payloads stay small"},
		stubs:       append([]string{"net.PacketConn/net.Addr -> harness types (WriteTo records, ReadFrom scripted or parked)", "hash/crc32.ChecksumIEEE -> chained uninterpreted function of the bytes", "cipher.AEAD -> documented Seal/Open contract over uninterpreted keystream/tag functions (native replay: real AES-GCM)", "fillRand -> fresh tagged symbolic bytes per call", "go statements are recorded, not run: postProcess is driven by the harness until it blocks (vfRunUntilBlocked); SystemTimedSched replaced by an inert scheduler", "reedsolomon -> abstract MDS codec"}, commonStubs...),
		bounds: map[string]string{
			"quick":    "cipher {nil, none-class, AEAD}; payload lengths {0,1,max-1,max,max+1} with symbolic bytes: refused iff oversize or FEC off; the datagram produced by the real postProcess, fed to the real Listener.packetInput, calls the handler exactly once with exactly the payload; encoder sequence id / shard count / max size, both KCP cores and the FEC decoder have empty write sets; a full post-processing queue drops and recycles once; an OOB message carrying another conversation id (payload 0..40, cipher nil / none-class) arriving from the address of an existing session never reaches that session's handler",
			"thorough": "same",
		},
		outside: "rates (per-call non-blocking argument only); handler on the dialled side is the same kcpInput code path",
	},
	"C09": {
		also:        []string{"C07_skip_parity", "C07_group", "C01_flush_content", "C19_oob"},
		assumptions: []string{"entropy quality is outside the claim: nonces are 'fresh' when they come from distinct fillRand calls", "README layout: [nonce16|crc32 4] or [nonce12|sealed], [seqid4|type2|size2], 24-byte little-endian headers + len bytes"},
		stubs:       append([]string{"net.PacketConn/net.Addr -> harness types (WriteTo records, ReadFrom scripted or parked)", "hash/crc32.ChecksumIEEE -> chained uninterpreted function of the bytes", "cipher.AEAD -> documented Seal/Open contract over uninterpreted keystream/tag functions (native replay: real AES-GCM)", "fillRand -> fresh tagged symbolic bytes per call", "go statements are recorded, not run: postProcess is driven by the harness until it blocks (vfRunUntilBlocked); SystemTimedSched replaced by an inert scheduler", "reedsolomon -> abstract MDS codec"}, commonStubs...),
		bounds: map[string]string{
			"quick":    "segment.encode vs the independent decoder for fully symbolic fields and payload 0..3, and the real Input on what the independent encoder writes; two 3-byte writes through a real session for cipher {nil, none-class, AEAD} x FEC {off,(2,1)}: every datagram on the stub socket is parsed by an independent decoder written from the README (CRC over exactly the rest, FEC id/type/size, KCP headers), the written bytes are reassembled from the wire alone, nonces pairwise from distinct fillRand calls (parity included); segment.encode vs the independent decoder is exercised on every emitted datagram of the C04/C10 flush harnesses; encoder id/type invariants: C07 harnesses",
			"thorough": "same",
		},
		outside: "statistical quality of the entropy source; retransmission datagrams at session level (core level: C04 flush harnesses decode every emitted datagram)",
	},
	"C07": {
		assumptions: []string{
			"Reed-Solomon arithmetic is abstracted by the MDS contract: parity = uninterpreted function of the data column; ReconstructData returns the encoder's data iff every shard presented provably equals the encoder's shard in the same slot (same length, same bytes incl. padding), otherwise unconstrained bytes; argument checks as documented (klauspost/reedsolomon itself is trusted; native replay uses the real codec)",
			"time.Now().UnixMilli() is an arbitrary non-decreasing value per call; groups whose parity the sender skipped are handled by the skip harness",
			"the decoder has tracked the stream (newestShardId is the previous group), see DESIGN.md C07",
		},
		stubs: append([]string{"reedsolomon.New/Encode/ReconstructData -> abstract MDS codec (harness/fec_stub.go + ghost code words in gse)"}, commonStubs...),
		bounds: map[string]string{
			"quick":    "(d,p) in {(1,1),(2,1),(2,2),(3,2)}; one group through the real encoder at 4 positions (0, last group before the id wrap, straddling 2^31, at 2^31), 3 payload-length vectors (1..3 symbolic bytes), every arrival sequence of d+1 packets drawn from the group with duplicates (all S^(d+1) sequences); two consecutive groups with all parity lost or skipped; end to end at session level (session_recovery): an established FEC 2/1 session over {no cipher, nonce+CRC, AEAD}, two writes (2 and 3 symbolic bytes) forming one group, optionally an out-of-band message between them, every arrival sequence of 3 drawn from {data0, data1, parity, OOB, nothing} through the real Listener.packetInput/kcpInput/KCP.Input/Read with no retransmission: any two of three deliver both messages byte for byte, fewer deliver exactly the in-order prefix",
			"thorough": "adds (1,3),(3,1),(4,2) and arrival sequences of S+1 packets",
		},
		outside: "GF(2^8) arithmetic; interleaving with more than the neighbouring groups; payloads longer than 3 bytes (the FEC layer does not interpret the body)",
	},
	"C12": {
		also: []string{"C07_group", "C07_skip_parity"},
		assumptions: append([]string{
			"relational (2-safety) step: second copy of the same symbolic state shifted by fully symbolic ds (own numbers), dr (peer's numbers), dt (every live timestamp and the clock); whether a timestamp is live (segment already transmitted, probe armed, Update called) is case-split",
			"the fault model is loss/duplication/delay/reordering of genuine datagrams: an incoming ACK never names or passes a segment that was not transmitted yet; the peer's own timestamps are opaque values",
			"windows <= 32768 (the signed-difference discipline needs < 2^31); FEC id wrap: C07 harness positions (last group before paws, across and at 2^31)",
			"induction over steps (invariance of whole histories) is the written argument; the two-endpoint scenarios run with symbolic origins of both sequence spaces and of the clock as an end-to-end check",
		}, kcpStateAssumptions...),
		stubs: commonStubs,
		bounds: map[string]string{
			"quick":    "Input of one arbitrary segment with symbolic fields, payload 0..1: PUSH/WASK against one queued + one buffered segment, WINS against two in-flight segments, ACK (exact ack, fast-ack counting, RTT sample, una, triggered flush) against one in-flight segment, both packet types; parse_ack / parse_fastack / parse_una+shrink_buf called directly on two in-flight segments (window tests and early loop exits are unobservable with one); flush FULL/ACKONLY from 2 shapes (cc off) and FULL from 2 shapes with cc on (MSS 4); Check+Update from 2 shapes; Recv+Send from 3 shapes: return values equal (Check: shifted), post-states and every emitted datagram (decoded independently) related by the same shifts",
			"thorough": "each family extended by its two-element variants, trailing garbage, ackNoDelay",
		},
		outside: "states in which a never-transmitted segment is named by an ACK (forged); shapes beyond 2 per queue",
	},
	"C13": {
		assumptions: []string{
			"schedules are explored by the executor's scheduler within a delay bound (quick 1, thorough 2): context switches only at synchronisation operations, which loses no behaviour of a data-race-free program (race freedom of the shared state is C14's subject); the solver decides data- and time-dependent branches, the schedule and event choices are enumerated decisions",
			"virtual time; every timer delivery 1 microsecond late",
			"goroutine-mode counterexamples are confirmed by concrete re-execution of the recorded decision sequence inside gse (no native twin for a schedule)",
		},
		stubs: []string{"goroutines: cooperative scheduler inside the executor (context switches only at channel operations, select, close, mutex lock/unlock, go, timer operations, goroutine exit; delay-bounded deviations from a deterministic round-robin default)", "time: virtual clock that advances only when every goroutine is blocked; time.NewTimer/Stop/Reset modelled with both Go timer-channel semantics (Go>=1.23 synchronous: Stop/Reset discard an unreceived tick and report it as pending; asynctimerchan=1: the stale tick stays buffered); every delivery is 1 microsecond late", "sockets: harness types whose ReadFrom parks until failed", "see C06 for the session-level stubs"},
		bounds: map[string]string{
			"quick":    "real UDPSession / Listener over stub sockets; 1-2 goroutines blocked in the real Read / Write (full window) / AcceptKCP, deadline set before blocking or not; 1-2 events from {data or ACK or new peer arrives, deadline set (+10 ms), cleared, set in the past, Close, socket error}, each followed by run-to-quiescence, then 50 ms of virtual time: nobody stays blocked while data/window/backlog is available, close/error/deadline wake every caller, a timeout is never reported before the earliest deadline ever in force, Read drains received data after Close and then fails, Write fails after Close, second Close reports an error",
			"thorough": "delay bound 2",
		},
		outside: "more than 2 blocked callers / 2 events; pre-emptions beyond the bound; real-time latency",
	},
	"C15": {
		also: []string{"C07_session_recovery", "C05_fecdecode", "C16_adopt_then_recover"},
		assumptions: []string{
			"ownership: the pool stub gives every acquisition an identity; a second Put and any read/write/copy touching a recycled buffer is reported on every path of every harness of every property (labels pool/double-put, pool/use-after-put); contents of a fresh Get are unconstrained so stale bytes show up as failed equalities in C01/C07/C09",
			"goroutine release: same scheduler model and bound as C13",
		},
		stubs: []string{"goroutines: cooperative scheduler inside the executor (context switches only at channel operations, select, close, mutex lock/unlock, go, timer operations, goroutine exit; delay-bounded deviations from a deterministic round-robin default)", "time: virtual clock that advances only when every goroutine is blocked; time.NewTimer/Stop/Reset modelled with both Go timer-channel semantics (Go>=1.23 synchronous: Stop/Reset discard an unreceived tick and report it as pending; asynctimerchan=1: the stale tick stays buffered); every delivery is 1 microsecond late", "sockets: harness types whose ReadFrom parks until failed", "see C06 for the session-level stubs"},
		bounds: map[string]string{
			"quick":    "client session + listener + accepted session over stub sockets with the real TimedSched, optional traffic, Close of client / accepted session / listener in 3 rotations each followed by 200 ms of virtual time, then socket failure and scheduler Close: no library goroutine left, no update callback pending; FEC decoder false-alarm re-tune with held shards followed by recovery; plus the ghost ownership assertions active in all other harnesses of this run's evidence",
			"thorough": "delay bound 2",
		},
		outside: "the real sync.Pool and the garbage collector",
	},
	"C17": {
		assumptions: []string{
			"same scheduler model as C13; 'submitted before close' is read as: the scheduler is not closed before the task's deadline",
			"symbolic-deadline harnesses: deadlines are symbolic offsets in [-1h,+1h] and the solver case-splits every comparison made by the scheduler code and the timer model (past/now/equal/increasing/decreasing/beyond the horizon arise as solver cases); the deeper-schedule harnesses take deadlines from {-5 ms, 0, 10 ms, 20 ms, 1 h}",
		},
		stubs: []string{"goroutines: cooperative scheduler inside the executor (context switches only at channel operations, select, close, mutex lock/unlock, go, timer operations, goroutine exit; delay-bounded deviations from a deterministic round-robin default)", "time: virtual clock that advances only when every goroutine is blocked; time.NewTimer/Stop/Reset modelled with both Go timer-channel semantics (Go>=1.23 synchronous: Stop/Reset discard an unreceived tick and report it as pending; asynctimerchan=1: the stale tick stays buffered); every delivery is 1 microsecond late", "sockets: harness types whose ReadFrom parks until failed", "see C06 for the session-level stubs"},
		bounds: map[string]string{
			"quick":    "real NewTimedSched with 1-2 workers, real prepend/sched goroutines, 1-2 submitter goroutines calling the real Put for 3 tasks, both timer-channel semantics, delay bound 1, 50 ms of virtual time: never early, at most once, every due task has run, future tasks have not, Close stops every goroutine",
			"thorough": "4 tasks (enumerated deadlines), delay bound 2",
		},
		outside: "more than 2 workers (they share nothing but the unbuffered channel); real-time latency of the Go runtime",
	},
	"C14": {
		assumptions: []string{
			"what is decided is the lock discipline G1-G4 of DESIGN.md §4 C14 plus G5 (the FEC encoder is touched only inside postProcess: goroutine confinement) on every feasible path of every entry point (a sufficient condition for race freedom of the locations it covers, by the lock-set argument); interleavings are not enumerated",
			"locations outside the table (packet bytes handed over through channels, fecEncoder state owned by postProcess, the deprecated SetDUP/SetStreamMode, the global SetEntropy) are outside the claim",
			"violations are confirmed by concrete re-execution inside gse (the monitor is ghost state), not by the race detector",
		},
		stubs: []string{"see C06; sync.Mutex/RWMutex are executor objects with an owner, visible to the monitor; sync/atomic and atomic.Value bypass the monitor by construction"},
		bounds: map[string]string{
			"quick":    "30 UDPSession entry points (incl. consecutive short Reads served from left-over bytes) (every exported non-deprecated method plus update, one postProcess iteration, packetInput) on the dialled and the accepted session and 11 Listener entry points, each with symbolic arguments from an established connection, cipher {nil, blockCrypt over the UF cipher} x FEC {off,(2,1)}; TimedSched.Put; every load/store of a guarded cell or map on every feasible path is checked against the lock state",
			"thorough": "same",
		},
		outside: "schedules; locations not in G1-G5; code that is race-free by a different correct mechanism would need the table extended (false-alarm risk recorded in DESIGN.md)",
	},
	"C16": {
		assumptions: []string{
			"same codec abstraction as C07",
			"sequence ids in the period-detector windows are s0+k modulo 2^32 with an independent phase (a superset of real streams away from the paws wrap; at the wrap the real stream has a discontinuity for which FindPeriod returns -1)",
			"what a mismatched decoder reconstructs before convergence is arbitrary bytes whose harmlessness is C05 (KCP.Input on arbitrary bytes)",
		},
		stubs: append([]string{"reedsolomon -> abstract MDS codec", "sort.Slice -> insertion sort calling the real less closure symbolically"}, commonStubs...),
		bounds: map[string]string{
			"quick":    "stability and detection: one decode step with a fully symbolic sequence id for (d,p) in {(1,1),(2,1),(2,2),(3,2)}; period detector: windows of 3..6 consecutive ids each present 0/1/2 times (all 3^n patterns), both insertion orders, every phase, symbolic start id, senders as above; clean windows of 2S+2 with fresh and wrapped (258-entry) sample ring, and for (10,3),(20,10),(128,127),(254,1),(1,254) at 5 boundary phases (for d+p=255 the 258-entry window cannot hold 2S+2 samples: only never-a-wrong-ratio is asserted there); adoption+recovery for 4 sender/receiver pairs at positions 0, ~10^6, 2^31 over 4 groups",
			"thorough": "windows up to 8, ratios up to (4,2)",
		},
		outside: "the literal 258+2(d+p) packet count for every d+p <= 255 under arbitrary pre-convergence faults; ratios with d+p > 6",
	},
	"C08": {
		assumptions: []string{
			"the block cipher is an uninterpreted function E: bytes^bs -> bytes^bs (one UF per output byte), so every equality proved holds for every deterministic 8- or 16-byte block function, i.e. AES-128/192/256, SM4, Twofish, 3DES, CAST5, Blowfish, TEA, XTEA at once; their constructors all go through newBlockCrypt, whose scratch sizes are asserted",
			"Salsa20's keystream is an uninterpreted function of (nonce, position); XOR uses an arbitrary 1500-byte table (pbkdf2 key expansion not executed)",
			"textbook CFB = C_i = P_i xor E(C_{i-1}), C_0 = IV[:bs], last partial block truncated, with the package's initialVector read from the interpreted package initialiser",
			"single caller (the mutexes are C14's subject); AEAD Seal/Open length arithmetic is checked in the session harnesses",
		},
		stubs: []string{"cipher.Block.Encrypt -> uninterpreted function (native replay: AES-128 / DES with a fixed key)", "subtle.XORBytes -> native model with its documented length and overlap panics", "salsa20.XORKeyStream -> xor with an uninterpreted keystream"},
		bounds: map[string]string{
			"quick":    "every packet length 0..300 and 1400..1500 (one path per length), block sizes 8 and 16, in place and into a separate buffer pre-filled with arbitrary bytes: ciphertext = textbook CFB byte for byte, decrypt(encrypt(P)) = P, sources untouched; Salsa20, XOR, none: round trip, in place and separate",
			"thorough": "every length 0..1500",
		},
		outside: "cryptographic strength; concurrent callers; block sizes other than 8 and 16 (encrypt panics for them by design)",
	},
	"C10": {
		also:        []string{"C01_session_link", "C19_oob", "C04_flush"},
		assumptions: kcpStateAssumptions,
		stubs:       commonStubs,
		bounds: map[string]string{
			"quick":    "core: SetMtu(m1) for every int m1 in [-2^40,2^40] after traffic at MTU 1400/100/27 (0..2 writes of MSS or 1 byte, optionally flushed), then flush at an arbitrary later clock and peer window; Send of 1 or 1900 bytes after SetMtu(m1>=700); flush with fully symbolic MTU 25..1524 from 3 shapes; every output(buf,size) call asserted 0 < size <= mtu",
			"thorough": "same",
		},
		outside: "fragment counts above 3 after an MTU change (Send with tiny MSS)",
	},
	"C18": {
		assumptions: kcpStateAssumptions,
		stubs:       commonStubs,
		bounds: map[string]string{
			"quick":    "(a) RTO bounds: update_ack for every rtt, srtt, rttvar >= 0 (single merged path, all 2^93 value combinations); Input of an arbitrary one-segment datagram at an arbitrary clock from 3 sender shapes; NewKCP and NoDelay with arbitrary arguments; (b) timer lemmas: C02 flush-timer harness; (c) clean-path scenario: two real endpoints, lossless FIFO network, reader keeping up, symbolic origins, stream/message, cc on/off, resend 0..2, nodelay 0/1: no retransmission and no repeated segment",
			"thorough": "same",
		},
		outside: "clean-path scenario bounds: <= 3 writes of 1..3 bytes at MSS 2, windows 1..4, flush period 10 or 20 ms with the whole round trip inside one period, 16 rounds",
	},
	"C20": {
		assumptions: []string{
			"Discard is called with n >= 0 (a negative count is outside its documented domain and no caller passes one)",
			"int is 64 bits (amd64)",
			"capacities outside the checked set are not machine-argued (the code is uniform in the capacity)",
		},
		stubs: commonStubs,
		bounds: map[string]string{
			"quick":    "RingBuffer[uint32], capacity in {8,9,16} ({8} for ForEach/ForEachReverse) with fully symbolic head, tail (every layout: empty, full, wrapped, unwrapped) and symbolic elements; one operation with symbolic arguments (Discard n in [0,2^62], iterator stop count in [1,cap+1]); growth 8->16, 16->32 from every full layout (symbolic head) and 64->128, 1024->1127 from boundary heads; NewRingBuffer(n) for n in [-2^40,64]",
			"thorough": "capacity in {8..17,32,64} symbolic layouts; growth 8,9,16,32 symbolic head and 64,512,1024,1127 from all head positions",
		},
		outside: "capacities not in the set; RingBuffer[segment] is exercised through the KCP harnesses (C01-C05) with concrete layouts",
	},
}
