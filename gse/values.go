package main

import (
	"fmt"
	"go/types"

	"golang.org/x/tools/go/ssa"
)

// Value is one of:
//
//	*Term      scalar (Bool, or bit-vector for every integer kind)
//	string     Go string (always concrete)
//	float64    concrete float (rare)
//	Ptr        pointer
//	SliceV     slice header (arr may be nil)
//	*StructV   struct value (value semantics: copied on load/store)
//	*ArrObj    array value when it appears as a Value (inline [N]T; value semantics)
//	*MapObj    map (reference; nil pointer = nil map)
//	*ChanObj   channel
//	IfaceV     interface value
//	*ClosureV  function value
//	TupleV     multiple results
//	*RangeIter iterator for ssa.Range
type Value interface{}

type StructV struct {
	f []Value
}

type ArrObj struct {
	elems    []Value // physical storage; nil = never written (base value)
	n        *Term   // logical length (64-bit)
	et       types.Type
	w        int    // element width if scalar (0 = bool), -1 otherwise
	baseArr  *Term  // SMT array variable supplying unwritten bytes (w == 8 only)
	id       int    // allocation id
	label    string // where it came from
	pool     bool   // acquired from the buffer pool stub
	recycled bool   // returned to the pool: any access is a violation
	getSite  string
}

type Ptr struct {
	cell *Value  // plain cell (local, field, materialised element)
	arr  *ArrObj // element of arr at idx (when cell == nil)
	idx  *Term
	// for write-set reporting
	owner *ArrObj
}

func (p Ptr) IsNil() bool { return p.cell == nil && p.arr == nil }

type SliceV struct {
	arr           *ArrObj
	off, len, cap *Term // 64-bit
}

type MapEntry struct {
	k, v    Value
	deleted bool
}
type MapObj struct {
	entries []*MapEntry
	kt, vt  types.Type
	id      int
}

type ChanObj struct {
	buf    []Value
	cap    int
	closed bool
	et     types.Type
	id     int
	// goroutine mode
	recvq, sendq []*waiter
}

type IfaceV struct {
	t types.Type // dynamic type; nil = nil interface
	v Value
}

type ClosureV struct {
	fn  *ssa.Function
	env []Value
	// native closures created by the executor (e.g. scheduler stubs)
	native func(ex *Exec, args []Value) Value
}

type TupleV []Value

type RangeIter struct {
	m   *MapObj
	pos int
	s   string
}

func basicWidth(b *types.Basic) (w int, signed bool, ok bool) {
	switch b.Kind() {
	case types.Bool, types.UntypedBool:
		return 0, false, true
	case types.Int8:
		return 8, true, true
	case types.Int16:
		return 16, true, true
	case types.Int32, types.UntypedRune:
		return 32, true, true
	case types.Int64, types.Int, types.UntypedInt:
		return 64, true, true
	case types.Uint8:
		return 8, false, true
	case types.Uint16:
		return 16, false, true
	case types.Uint32:
		return 32, false, true
	case types.Uint64, types.Uint, types.Uintptr:
		return 64, false, true
	}
	return 0, false, false
}

func scalarWidth(t types.Type) int {
	if b, ok := t.Underlying().(*types.Basic); ok {
		if w, _, ok := basicWidth(b); ok {
			return w
		}
	}
	return -1
}

func isSigned(t types.Type) bool {
	if b, ok := t.Underlying().(*types.Basic); ok {
		_, s, _ := basicWidth(b)
		return s
	}
	return false
}

func (ex *Exec) zero(t types.Type) Value {
	switch u := t.Underlying().(type) {
	case *types.Basic:
		if w, _, ok := basicWidth(u); ok {
			return ex.ts.Const(w, 0)
		}
		switch u.Kind() {
		case types.String, types.UntypedString:
			return ""
		case types.Float32, types.Float64, types.UntypedFloat:
			return float64(0)
		case types.UnsafePointer:
			return Ptr{}
		case types.UntypedNil:
			return nil
		}
		panic(pathEnd{kind: endUnsupported, msg: "zero of basic " + u.String()})
	case *types.Pointer:
		return Ptr{}
	case *types.Slice:
		return SliceV{}
	case *types.Map:
		return (*MapObj)(nil)
	case *types.Chan:
		return (*ChanObj)(nil)
	case *types.Interface:
		return IfaceV{}
	case *types.Signature:
		return (*ClosureV)(nil)
	case *types.Struct:
		s := &StructV{f: make([]Value, u.NumFields())}
		for i := range s.f {
			s.f[i] = ex.zero(u.Field(i).Type())
		}
		return s
	case *types.Array:
		return ex.newArr(u.Elem(), int(u.Len()), "inline")
	case *types.Tuple:
		tv := make(TupleV, u.Len())
		for i := range tv {
			tv[i] = ex.zero(u.At(i).Type())
		}
		return tv
	}
	panic(pathEnd{kind: endUnsupported, msg: "zero of " + t.String()})
}

func (ex *Exec) newArr(et types.Type, n int, label string) *ArrObj {
	ex.allocID++
	a := &ArrObj{elems: make([]Value, n), n: ex.c64(uint64(n)), et: et, w: scalarWidth(et), id: ex.allocID, label: label}
	if a.w < 0 {
		for i := range a.elems {
			a.elems[i] = ex.zero(et)
		}
	}
	ex.allocs++
	return a
}

func (ex *Exec) c64(v uint64) *Term { return ex.ts.Const(64, v) }

// copyVal implements value semantics for aggregates.
func (ex *Exec) copyVal(v Value) Value {
	switch x := v.(type) {
	case *StructV:
		n := &StructV{f: make([]Value, len(x.f))}
		for i, f := range x.f {
			n.f[i] = ex.copyVal(f)
		}
		return n
	case *ArrObj:
		ex.allocID++
		n := &ArrObj{elems: make([]Value, len(x.elems)), n: x.n, et: x.et, w: x.w, baseArr: x.baseArr, id: ex.allocID, label: x.label}
		for i, e := range x.elems {
			if e != nil {
				n.elems[i] = ex.copyVal(e)
			}
		}
		return n
	case TupleV:
		n := make(TupleV, len(x))
		for i, e := range x {
			n[i] = ex.copyVal(e)
		}
		return n
	}
	return v
}

// assign stores v into *cell keeping the identity of nested cells stable.
func (ex *Exec) assign(cell *Value, v Value) {
	switch x := v.(type) {
	case *StructV:
		if old, ok := (*cell).(*StructV); ok && old != x && len(old.f) == len(x.f) {
			for i := range x.f {
				ex.assign(&old.f[i], x.f[i])
			}
			return
		}
		*cell = ex.copyVal(v)
		return
	case *ArrObj:
		if old, ok := (*cell).(*ArrObj); ok && old != x && len(old.elems) == len(x.elems) {
			for i := range x.elems {
				if x.elems[i] == nil {
					if old.w >= 0 {
						old.elems[i] = nil
						if x.baseArr != nil || old.baseArr != nil {
							old.elems[i] = ex.arrRead(x, ex.c64(uint64(i)))
						}
					}
					continue
				}
				if old.elems[i] == nil {
					old.elems[i] = ex.copyVal(x.elems[i])
				} else {
					ex.assign(&old.elems[i], x.elems[i])
				}
			}
			return
		}
		*cell = ex.copyVal(v)
		return
	}
	*cell = v
}

func (ex *Exec) arrBase(a *ArrObj, idx *Term) Value {
	if a.baseArr != nil {
		return ex.ts.Select(a.baseArr, idx)
	}
	return ex.zero(a.et)
}

// arrRead reads element idx (already bounds-checked).
func (ex *Exec) arrRead(a *ArrObj, idx *Term) Value {
	if a.recycled {
		ex.violation("pool/use-after-put", fmt.Sprintf("read of recycled pool buffer #%d (got at %s)", a.id, a.getSite), nil)
	}
	if ex.monitor != nil && ex.monitorOn {
		ex.monitorArr(a, idx, false, ex.curSite())
	}
	if idx.IsConst() {
		i := int(idx.val)
		if i >= len(a.elems) {
			panic(pathEnd{kind: endEngine, msg: fmt.Sprintf("arrRead physical index %d >= %d (%s)", i, len(a.elems), a.label)})
		}
		if e := a.elems[i]; e != nil {
			return e
		}
		if a.w < 0 {
			panic(pathEnd{kind: endEngine, msg: "unmaterialised aggregate element"})
		}
		return ex.arrBase(a, idx)
	}
	if a.w < 0 {
		i := ex.concretize(idx, "index")
		return a.elems[i]
	}
	// symbolic index over scalar elements: base then overlay
	res := ex.arrBase(a, idx).(*Term)
	cnt := 0
	for i, e := range a.elems {
		if e != nil {
			res = ex.ts.Ite(ex.ts.Eq(idx, ex.c64(uint64(i))), e.(*Term), res)
			cnt++
		}
	}
	return res
}

// arrWrite writes element idx (already bounds-checked).
func (ex *Exec) arrWrite(a *ArrObj, idx *Term, v Value) {
	if a.recycled {
		ex.violation("pool/use-after-put", fmt.Sprintf("write to recycled pool buffer #%d (got at %s)", a.id, a.getSite), nil)
	}
	ex.noteWriteArr(a)
	if ex.monitor != nil && ex.monitorOn {
		ex.monitorArr(a, idx, true, ex.curSite())
	}
	if !idx.IsConst() {
		if a.w >= 0 && len(a.elems) <= 64 {
			nv := v.(*Term)
			for i := range a.elems {
				old := a.elems[i]
				if old == nil {
					old = ex.arrBase(a, ex.c64(uint64(i)))
				}
				a.elems[i] = ex.ts.Ite(ex.ts.Eq(idx, ex.c64(uint64(i))), nv, old.(*Term))
			}
			return
		}
		idx = ex.c64(ex.concretize(idx, "index"))
	}
	i := int(idx.val)
	if i >= len(a.elems) {
		panic(pathEnd{kind: endEngine, msg: fmt.Sprintf("arrWrite physical index %d >= %d (%s)", i, len(a.elems), a.label)})
	}
	if a.w >= 0 {
		a.elems[i] = v
	} else {
		ex.assign(&a.elems[i], v)
	}
}

func (ex *Exec) load(p Ptr, site ssa.Instruction) Value {
	if p.IsNil() {
		ex.implicitPanic("nil-deref", ex.ts.True, site)
	}
	if p.cell != nil {
		if p.owner != nil && p.owner.recycled {
			ex.violation("pool/use-after-put", "read through pointer into recycled pool buffer", nil)
		}
		ex.monitorAccess(p.cell, false, site)
		return ex.copyVal(*p.cell)
	}
	return ex.copyVal(ex.arrRead(p.arr, p.idx))
}

func (ex *Exec) store(p Ptr, v Value, site ssa.Instruction) {
	if p.IsNil() {
		ex.implicitPanic("nil-deref", ex.ts.True, site)
	}
	if p.cell != nil {
		ex.monitorAccess(p.cell, true, site)
		ex.noteWriteCell(p.cell)
		ex.assign(p.cell, v)
		return
	}
	ex.arrWrite(p.arr, p.idx, ex.copyVal(v))
}

// elemCell returns a stable cell for element i of an aggregate-element array.
func (ex *Exec) elemPtr(a *ArrObj, idx *Term) Ptr {
	if a.w < 0 {
		i := idx
		if !i.IsConst() {
			i = ex.c64(ex.concretize(idx, "index"))
		}
		if int(i.val) >= len(a.elems) {
			panic(pathEnd{kind: endEngine, msg: "elemPtr physical index out of range"})
		}
		return Ptr{cell: &a.elems[int(i.val)], owner: a}
	}
	return Ptr{arr: a, idx: idx}
}

func typeString(t types.Type) string {
	if t == nil {
		return "<nil>"
	}
	return types.TypeString(t, nil)
}

func (ex *Exec) curSite() ssa.Instruction {
	if ex.cur != nil {
		return ex.cur.site
	}
	return nil
}
