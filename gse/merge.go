package main

// State merging for small side-effect-light regions ("if-conversion"): when an
// If on a symbolic condition opens a DAG of blocks that rejoins at its
// immediate post-dominator and contains only scalar loads/stores, pure scalar
// arithmetic and pure builtins, the region is executed once under guards —
// phis become ite terms and stores become guarded stores — instead of forking
// a path per branch. This is what keeps flush()'s five-way per-segment
// retransmission decision from multiplying the path count by 60 per segment.
// The transformation is semantics-preserving for the allowed instruction set;
// anything else falls back to ordinary forking.

import (
	"go/token"
	"go/types"

	"golang.org/x/tools/go/ssa"
)

type regionInfo struct {
	ok     bool
	join   *ssa.BasicBlock
	blocks []*ssa.BasicBlock // topological order
}

type mergeInfo struct {
	ipdom  map[*ssa.BasicBlock]*ssa.BasicBlock
	region map[*ssa.BasicBlock]*regionInfo
}

const (
	maxRegionBlocks = 48
	maxRegionInstrs = 600
)

func (ex *Exec) mergeInfoOf(fn *ssa.Function) *mergeInfo {
	if mi, ok := ex.minfo[fn]; ok {
		return mi
	}
	mi := &mergeInfo{ipdom: postDominators(fn), region: map[*ssa.BasicBlock]*regionInfo{}}
	ex.minfo[fn] = mi
	return mi
}

// postDominators computes immediate post-dominators with the iterative algorithm on the reverse CFG.
func postDominators(fn *ssa.Function) map[*ssa.BasicBlock]*ssa.BasicBlock {
	n := len(fn.Blocks)
	// exit blocks: no successors
	full := make([]bool, n+1)
	for i := range full {
		full[i] = true
	}
	pd := make([][]bool, n)
	for i, b := range fn.Blocks {
		pd[i] = make([]bool, n)
		if len(b.Succs) == 0 {
			pd[i][i] = true
		} else {
			for j := range pd[i] {
				pd[i][j] = true
			}
		}
	}
	changed := true
	for changed {
		changed = false
		for i := n - 1; i >= 0; i-- {
			b := fn.Blocks[i]
			if len(b.Succs) == 0 {
				continue
			}
			nw := make([]bool, n)
			for j := range nw {
				nw[j] = true
			}
			for _, s := range b.Succs {
				for j := range nw {
					nw[j] = nw[j] && pd[s.Index][j]
				}
			}
			nw[i] = true
			for j := range nw {
				if nw[j] != pd[i][j] {
					changed = true
				}
			}
			pd[i] = nw
		}
	}
	ip := map[*ssa.BasicBlock]*ssa.BasicBlock{}
	for i, b := range fn.Blocks {
		// immediate post-dominator: the strict post-dominator that is post-dominated by all other strict ones
		var cands []int
		for j := 0; j < n; j++ {
			if j != i && pd[i][j] {
				cands = append(cands, j)
			}
		}
		for _, c := range cands {
			isImm := true
			for _, d := range cands {
				if d != c && !pd[c][d] {
					isImm = false
					break
				}
			}
			if isImm {
				ip[b] = fn.Blocks[c]
				break
			}
		}
	}
	return ip
}

func scalarType(t types.Type) bool {
	if b, ok := t.Underlying().(*types.Basic); ok {
		_, _, ok := basicWidth(b)
		return ok
	}
	return false
}

func pureInstr(in ssa.Instruction) bool {
	switch x := in.(type) {
	case *ssa.Phi:
		return scalarType(x.Type())
	case *ssa.BinOp:
		switch x.Op {
		case token.QUO, token.REM:
			k, ok := x.Y.(*ssa.Const)
			if !ok || k.Value == nil || k.Uint64() == 0 {
				return false
			}
		case token.SHL, token.SHR:
			if isSigned(x.Y.Type()) {
				if _, ok := x.Y.(*ssa.Const); !ok {
					return false
				}
			}
		}
		return scalarType(x.X.Type()) && scalarType(x.Y.Type())
	case *ssa.UnOp:
		switch x.Op {
		case token.NOT, token.SUB, token.XOR:
			return scalarType(x.Type())
		case token.MUL:
			return true // load
		}
		return false
	case *ssa.Convert:
		return scalarType(x.Type()) && scalarType(x.X.Type())
	case *ssa.ChangeType:
		return true
	case *ssa.FieldAddr:
		return true
	case *ssa.Store:
		return scalarType(x.Val.Type())
	case *ssa.Call:
		if b, ok := x.Call.Value.(*ssa.Builtin); ok {
			switch b.Name() {
			case "len", "cap":
				return true
			case "min", "max":
				return scalarType(x.Type())
			}
			return false
		}
		if callee := x.Call.StaticCallee(); callee != nil && atomicKind(callee) != "" {
			return true
		}
		// a leaf function that is a single block of pure scalar arithmetic (e.g. _itimediff)
		if callee := x.Call.StaticCallee(); callee != nil && len(callee.Blocks) == 1 && !x.Call.IsInvoke() {
			for _, ci := range callee.Blocks[0].Instrs {
				switch z := ci.(type) {
				case *ssa.Return:
					if len(z.Results) != 1 || !scalarType(z.Results[0].Type()) {
						return false
					}
				case *ssa.BinOp, *ssa.Convert, *ssa.ChangeType:
					if !pureInstr(ci) {
						return false
					}
				case *ssa.UnOp:
					if z.Op == token.MUL || !pureInstr(ci) {
						return false
					}
				case *ssa.DebugRef:
				default:
					return false
				}
			}
			for _, a := range x.Call.Args {
				if !scalarType(a.Type()) {
					return false
				}
			}
			return true
		}
		return false
	case *ssa.If, *ssa.Jump, *ssa.DebugRef:
		return true
	}
	return false
}

func (ex *Exec) regionOf(b *ssa.BasicBlock) *regionInfo {
	mi := ex.mergeInfoOf(b.Parent())
	if r, ok := mi.region[b]; ok {
		return r
	}
	r := &regionInfo{}
	mi.region[b] = r
	j := mi.ipdom[b]
	if j == nil {
		return r
	}
	// collect blocks between b and j
	in := map[*ssa.BasicBlock]bool{}
	var order []*ssa.BasicBlock
	state := map[*ssa.BasicBlock]int{}
	cyc := false
	var dfs func(x *ssa.BasicBlock)
	dfs = func(x *ssa.BasicBlock) {
		if x == j || cyc {
			return
		}
		if x == b {
			cyc = true
			return
		}
		switch state[x] {
		case 1:
			cyc = true
			return
		case 2:
			return
		}
		state[x] = 1
		in[x] = true
		for _, s := range x.Succs {
			dfs(s)
		}
		state[x] = 2
		order = append(order, x)
	}
	for _, s := range b.Succs {
		dfs(s)
	}
	if cyc || len(in) > maxRegionBlocks {
		return r
	}
	ninstr := 0
	for x := range in {
		for _, p := range x.Preds {
			if p != b && !in[p] {
				return r // side entry
			}
		}
		for _, i := range x.Instrs {
			ninstr++
			if !pureInstr(i) {
				return r
			}
		}
	}
	if ninstr > maxRegionInstrs {
		return r
	}
	// the join's phis fed from the region must be scalar
	for _, i := range j.Instrs {
		phi, ok := i.(*ssa.Phi)
		if !ok {
			break
		}
		if !scalarType(phi.Type()) {
			return r
		}
	}
	// reverse postorder
	for l, h := 0, len(order)-1; l < h; l, h = l+1, h-1 {
		order[l], order[h] = order[h], order[l]
	}
	r.ok, r.join, r.blocks = true, j, order
	return r
}

type wkey struct {
	cell *Value
	arr  *ArrObj
	idx  uint64
}

type mergeAbort struct{}

// tryMerge executes the region opened by the If at the end of b under guards.
// On success the join block's phis are set and the join is returned.
func (ex *Exec) tryMerge(fr *Frame, b *ssa.BasicBlock, cond *Term) (join *ssa.BasicBlock) {
	if ex.noMerge || (ex.monitor != nil && ex.monitorOn) {
		return nil
	}
	r := ex.regionOf(b)
	if !r.ok {
		return nil
	}
	ts := ex.ts
	guard := map[*ssa.BasicBlock]*Term{b: ts.True}
	edge := func(p *ssa.BasicBlock, k int) *Term {
		g := guard[p]
		if len(p.Succs) == 2 {
			var c *Term
			if p == b {
				c = cond
			} else {
				c = ex.get(fr, p.Instrs[len(p.Instrs)-1].(*ssa.If).Cond).(*Term)
			}
			if k == 1 {
				c = ts.BNot(c)
			}
			return ts.BAnd(g, c)
		}
		return g
	}
	incoming := func(x *ssa.BasicBlock) (preds []*ssa.BasicBlock, gs []*Term) {
		for _, p := range x.Preds {
			if _, ok := guard[p]; !ok {
				continue
			}
			for k, s := range p.Succs {
				if s == x {
					preds = append(preds, p)
					gs = append(gs, edge(p, k))
				}
			}
		}
		return
	}
	wlog := map[wkey]Value{}
	var worder []wkey
	wptr := map[wkey]Ptr{}
	keyOf := func(p Ptr) wkey {
		if p.IsNil() {
			panic(mergeAbort{})
		}
		if p.cell != nil {
			return wkey{cell: p.cell}
		}
		if !p.idx.IsConst() || p.arr.recycled {
			panic(mergeAbort{})
		}
		return wkey{arr: p.arr, idx: p.idx.val}
	}
	phiVal := func(phi *ssa.Phi, x *ssa.BasicBlock, preds []*ssa.BasicBlock, gs []*Term) *Term {
		var res *Term
		for i := len(preds) - 1; i >= 0; i-- {
			var v *Term
			for k, pp := range x.Preds {
				if pp == preds[i] {
					v = ex.get(fr, phi.Edges[k]).(*Term)
					break
				}
			}
			if res == nil {
				res = v
			} else {
				res = ts.Ite(gs[i], v, res)
			}
		}
		return res
	}
	ok := func() (ok bool) {
		defer func() {
			if rec := recover(); rec != nil {
				if _, is := rec.(mergeAbort); is {
					ok = false
					return
				}
				panic(rec)
			}
		}()
		for _, x := range r.blocks {
			preds, gs := incoming(x)
			g := ts.False
			for _, e := range gs {
				g = ts.BOr(g, e)
			}
			guard[x] = g
			for _, in := range x.Instrs {
				ex.steps++
				switch y := in.(type) {
				case *ssa.Phi:
					ex.set(fr, y, phiVal(y, x, preds, gs))
				case *ssa.Store:
					p := ex.get(fr, y.Addr).(Ptr)
					k := keyOf(p)
					old, seen := wlog[k]
					if !seen {
						if p.cell != nil {
							old = *p.cell
						} else {
							old = ex.arrRead(p.arr, p.idx)
						}
						worder = append(worder, k)
						wptr[k] = p
					}
					ot, isT := old.(*Term)
					if !isT {
						panic(mergeAbort{})
					}
					wlog[k] = ts.Ite(g, ex.get(fr, y.Val).(*Term), ot)
				case *ssa.UnOp:
					if y.Op == token.MUL {
						p := ex.get(fr, y.X).(Ptr)
						k := keyOf(p)
						if v, seen := wlog[k]; seen {
							ex.set(fr, y, v)
						} else if p.cell != nil {
							if ex.monitor != nil {
								panic(mergeAbort{})
							}
							ex.set(fr, y, ex.copyVal(*p.cell))
						} else {
							ex.set(fr, y, ex.copyVal(ex.arrRead(p.arr, p.idx)))
						}
					} else {
						ex.set(fr, y, ex.evalInstr(fr, y))
					}
				case *ssa.FieldAddr:
					p := ex.get(fr, y.X).(Ptr)
					if p.IsNil() {
						panic(mergeAbort{})
					}
					ex.set(fr, y, ex.evalInstr(fr, y))
				case *ssa.If, *ssa.Jump, *ssa.DebugRef:
				case *ssa.Call:
					if callee := y.Call.StaticCallee(); callee != nil && atomicKind(callee) != "" {
						p := ex.get(fr, y.Call.Args[0]).(Ptr)
						k := keyOf(p)
						old, seen := wlog[k]
						if !seen {
							if p.cell != nil {
								old = *p.cell
							} else {
								old = ex.arrRead(p.arr, p.idx)
							}
						}
						ot, isT := old.(*Term)
						if !isT {
							panic(mergeAbort{})
						}
						switch atomicKind(callee) {
						case "load":
							ex.set(fr, y, ot)
						case "add", "store":
							nv := ex.get(fr, y.Call.Args[1]).(*Term)
							if atomicKind(callee) == "add" {
								nv = ts.Add(ot, nv)
							}
							if !seen {
								worder = append(worder, k)
								wptr[k] = p
							}
							wlog[k] = ts.Ite(g, nv, ot)
							ex.set(fr, y, nv)
						}
						break
					}
					ex.set(fr, y, ex.doCall(fr, &y.Call, y))
				case ssa.Value:
					ex.set(fr, y, ex.evalInstr(fr, y))
				default:
					panic(mergeAbort{})
				}
			}
		}
		return true
	}()
	if !ok {
		ex.counters["merge-abort"]++
		return nil
	}
	if ex.monitor != nil && len(worder) > 0 {
		// the lock monitor wants to see every store individually
		ex.counters["merge-abort"]++
		return nil
	}
	// commit
	for _, k := range worder {
		p := wptr[k]
		if p.cell != nil {
			ex.noteWriteCell(p.cell)
			*p.cell = wlog[k]
		} else {
			ex.arrWrite(p.arr, p.idx, wlog[k])
		}
	}
	preds, gs := incoming(r.join)
	for _, in := range r.join.Instrs {
		phi, isPhi := in.(*ssa.Phi)
		if !isPhi {
			break
		}
		ex.set(fr, phi, phiVal(phi, r.join, preds, gs))
	}
	ex.counters["merged-regions"]++
	return r.join
}

func atomicKind(fn *ssa.Function) string {
	if fn.Pkg == nil || fn.Pkg.Pkg.Path() != "sync/atomic" {
		return ""
	}
	n := fn.Name()
	switch {
	case len(n) > 3 && n[:3] == "Add":
		return "add"
	case len(n) > 4 && n[:4] == "Load":
		return "load"
	case len(n) > 5 && n[:5] == "Store":
		return "store"
	}
	return ""
}
