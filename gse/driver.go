package main

import (
	"fmt"
	"os"
	"path/filepath"
	"sort"
	"strings"
	"sync"
	"time"

	"golang.org/x/tools/go/packages"
	"golang.org/x/tools/go/ssa"
	"golang.org/x/tools/go/ssa/ssautil"
)

// World is the per-path configuration (copied for every path).
type World struct {
	maxAlloc          int
	maxEnum           int
	panicsAreFindings bool
	tier              int
	seed              int64
}

type Program struct {
	prog    *ssa.Program
	pkg     *ssa.Package
	loadS   float64
	buildS  float64
	files   map[string]string // harness overlay: virtual path -> real path
	srcHash map[string]string
}

// repoDir: the tree under verification. Always /repo for registered checks; VF_REPO lets a
// development sweep (vp run --with-repo) read a snapshot instead while /repo is being edited.
var repoDir = func() string {
	if d := os.Getenv("VF_REPO"); d != "" {
		return d
	}
	return "/repo"
}()

func harnessDir() string {
	if d := os.Getenv("VF_HARNESS_DIR"); d != "" {
		return d
	}
	exe, _ := os.Executable()
	return filepath.Join(filepath.Dir(filepath.Dir(exe)), "harness")
}

func overlayFiles() map[string]string {
	m := map[string]string{}
	ents, _ := os.ReadDir(harnessDir())
	for _, e := range ents {
		n := e.Name()
		if strings.HasSuffix(n, ".go") && !strings.HasSuffix(n, "_test.go") {
			m[filepath.Join(repoDir, "zz_vf_"+n)] = filepath.Join(harnessDir(), n)
		}
	}
	return m
}

func loadProgram() (*Program, error) {
	os.Setenv("PATH", "/opt/veriftools/go1.26.8/bin:"+os.Getenv("PATH"))
	os.Setenv("GOTOOLCHAIN", "local")
	os.Setenv("GOFLAGS", "-mod=mod")
	os.Setenv("GOPROXY", "off")
	os.Unsetenv("GOSUMDB")
	t0 := time.Now()
	files := overlayFiles()
	ov := map[string][]byte{}
	for v, r := range files {
		b, err := os.ReadFile(r)
		if err != nil {
			return nil, err
		}
		ov[v] = b
	}
	cfg := &packages.Config{Mode: packages.LoadAllSyntax, Dir: repoDir, Overlay: ov}
	pkgs, err := packages.Load(cfg, ".")
	if err != nil {
		return nil, err
	}
	if len(pkgs) != 1 {
		return nil, fmt.Errorf("expected one package, got %d", len(pkgs))
	}
	if len(pkgs[0].Errors) > 0 {
		var sb strings.Builder
		for _, e := range pkgs[0].Errors {
			sb.WriteString(e.Error() + "\n")
		}
		return nil, fmt.Errorf("package errors:\n%s", sb.String())
	}
	t1 := time.Now()
	prog, spkgs := ssautil.AllPackages(pkgs, ssa.InstantiateGenerics)
	prog.Build()
	p := &Program{prog: prog, pkg: spkgs[0], files: files}
	p.loadS = t1.Sub(t0).Seconds()
	p.buildS = time.Since(t1).Seconds()
	return p, nil
}

// ---------- running one harness ----------

type HarnessResult struct {
	Tier       int  // tier the harness ran at (cross-listed harnesses always run at the quick bounds)
	Deep       bool // thorough tier, second pass: larger family explored within a wall-clock budget
	Name       string
	Paths      int
	Ends       map[string]int
	Decisions  int
	Steps      int
	Findings   []Finding
	FindingCnt map[string]int
	Reached    map[string]bool
	Asserted   map[string]int
	Incon      []string
	Funcs      map[string]bool
	Queries    int
	QSat       int
	QUnsat     int
	QUnknown   int
	SolverS    float64
	WallS      float64
	Counters   map[string]int
	Observes   []string
	SolverErrs []string
	PathBudget bool
	SamplePath []string
	Witnesses  []*Witness
}

type RunOpts struct {
	workers   int
	maxPaths  int
	maxSteps  int
	tier      int
	seed      int64
	solver    string
	timeout   int
	verbose   bool
	prefix    []Decision // run a single path (replay)
	witnesses int        // number of completed paths per harness for which a model is extracted
	fixed     *modelFile // all inputs fixed to these values (concrete re-execution)
	maxWallS  int        // wall-clock budget per harness; exceeding it is reported like the path budget (inconclusive)
}

func defaultOpts() RunOpts {
	return RunOpts{workers: 16, maxPaths: 200000, maxSteps: 3000000, solver: "z3-new,z3", timeout: 25000}
}

func runHarness(p *Program, name string, o RunOpts) *HarnessResult {
	fn := p.pkg.Func(name)
	res := &HarnessResult{Name: name, Ends: map[string]int{}, FindingCnt: map[string]int{}, Reached: map[string]bool{},
		Asserted: map[string]int{}, Funcs: map[string]bool{}, Counters: map[string]int{}}
	if fn == nil {
		res.Incon = append(res.Incon, "harness function not found: "+name)
		return res
	}
	t0 := time.Now()
	var mu sync.Mutex
	found := &sync.Map{}
	var queue [][]Decision
	outstanding := 0
	cond := sync.NewCond(&mu)
	if o.prefix != nil {
		queue = append(queue, o.prefix)
	} else {
		queue = append(queue, []Decision{})
	}
	outstanding = 1
	started := 0
	var wg sync.WaitGroup
	nw := o.workers
	if o.prefix != nil {
		nw = 1
	}
	for w := 0; w < nw; w++ {
		wg.Add(1)
		go func(wid int) {
			defer wg.Done()
			var sols []*Solver
			defer func() {
				for _, s := range sols {
					s.Close()
				}
			}()
			for {
				mu.Lock()
				for len(queue) == 0 && outstanding > 0 {
					cond.Wait()
				}
				if len(queue) == 0 {
					mu.Unlock()
					cond.Broadcast()
					return
				}
				// depth-first: take the newest
				pre := queue[len(queue)-1]
				queue = queue[:len(queue)-1]
				started++
				over := started > o.maxPaths || (o.maxWallS > 0 && o.prefix == nil && time.Since(t0) > time.Duration(o.maxWallS)*time.Second)
				mu.Unlock()
				if over {
					mu.Lock()
					res.PathBudget = true
					outstanding--
					mu.Unlock()
					cond.Broadcast()
					continue
				}
				ts := NewTermStore()
				if sols == nil {
					for _, n := range strings.Split(o.solver, ",") {
						sols = append(sols, NewSolver(n, ts, o.timeout))
					}
				}
				sols[0].ts = ts
				sols[0].Reset()
				ex := newExec(p, ts, sols, name, pre, o)
				if o.maxWallS > 0 && o.prefix == nil {
					ex.deadline = t0.Add(time.Duration(o.maxWallS) * time.Second)
				}
				mu.Lock()
				ex.wantWitness = len(res.Witnesses) < o.witnesses
				mu.Unlock()
				ex.fixed = o.fixed
				ex.foundLabels = found
				end := ex.runPath(fn)
				mu.Lock()
				if ex.witness != nil && len(res.Witnesses) < o.witnesses {
					res.Witnesses = append(res.Witnesses, ex.witness)
				}
				res.Paths++
				res.Ends[end.kind.String()]++
				if end.kind == endUnsupported || end.kind == endBudget || end.kind == endEngine {
					msg := end.kind.String() + ": " + end.msg
					if end.kind == endBudget && len(res.Incon) < 3 {
						msg += fmt.Sprintf(" picks=%v", ex.picks)
						if os.Getenv("GSE_SHOW") != "" {
							for i, c := range ex.pc {
								if i < 12 {
									msg += " | " + ts.Show(c)
								}
							}
						}
					}
					res.Incon = appendCapped(res.Incon, msg)
				}
				if end.kind == endBlocked && !strings.HasPrefix(end.msg, "expected") {
					res.Counters["blocked: "+end.msg]++
				}
				res.Decisions += len(ex.trace)
				res.Steps += ex.steps
				for _, f := range ex.findings {
					res.FindingCnt[f.Label]++
					if res.FindingCnt[f.Label] == 1 {
						res.Findings = append(res.Findings, f)
					}
				}
				for k := range ex.reached {
					res.Reached[k] = true
				}
				for k, v := range ex.asserted {
					res.Asserted[k] += v
				}
				for _, s := range ex.incon {
					res.Incon = appendCapped(res.Incon, s)
				}
				for f := range ex.fnEntered {
					res.Funcs[f.String()] = true
				}
				for k, v := range ex.counters {
					res.Counters[k] += v
				}
				if len(res.Observes) < 40 {
					res.Observes = append(res.Observes, ex.observes...)
				}
				if res.SamplePath == nil || (len(ex.trace) > 0 && res.Paths%97 == 0) {
					res.SamplePath = []string{fmt.Sprintf("end=%s decisions=%d steps=%d pc=%d", end.kind, len(ex.trace), ex.steps, len(ex.pc))}
					for i, c := range ex.pc {
						if i >= 6 {
							break
						}
						res.SamplePath = append(res.SamplePath, ts.Show(c))
					}
				}
				if o.prefix == nil {
					for _, f := range ex.forks {
						queue = append(queue, f)
						outstanding++
					}
				}
				outstanding--
				if o.verbose && res.Paths%200 == 0 {
					fmt.Fprintf(os.Stderr, "  [%s] paths=%d queue=%d findings=%d\n", name, res.Paths, len(queue), len(res.Findings))
				}
				mu.Unlock()
				cond.Broadcast()
			}
		}(w)
	}
	wg.Wait()
	// solver stats are accumulated per worker at close; collect via global counters
	res.WallS = time.Since(t0).Seconds()
	stats.mu.Lock()
	res.Queries, res.QSat, res.QUnsat, res.QUnknown = stats.q, stats.sat, stats.unsat, stats.unk
	res.SolverS = stats.t.Seconds()
	res.SolverErrs = stats.errs
	stats.q, stats.sat, stats.unsat, stats.unk, stats.t, stats.errs = 0, 0, 0, 0, 0, nil
	stats.mu.Unlock()
	sort.Strings(res.Incon)
	return res
}

func appendCapped(s []string, x string) []string {
	for _, y := range s {
		if y == x {
			return s
		}
	}
	if len(s) < 60 {
		return append(s, x)
	}
	return s
}

var stats struct {
	mu                 sync.Mutex
	q, sat, unsat, unk int
	t                  time.Duration
	errs               []string
}

func newExec(p *Program, ts *TermStore, sols []*Solver, harness string, prefix []Decision, o RunOpts) *Exec {
	ex := &Exec{
		w:    &World{maxAlloc: 8192, maxEnum: 4096, panicsAreFindings: true, tier: o.tier, seed: o.seed},
		prog: p.prog, pkg: p.pkg, ts: ts, sol: sols[0], sols: sols, gens: make([]int, len(sols)), harness: harness, prefix: prefix,
		globals: map[*ssa.Global]*Value{}, locks: map[*Value]*lockState{}, onces: map[*Value]bool{}, avals: map[*Value]Value{},
		inputSeen: map[string]bool{}, maxSteps: o.maxSteps, reached: map[string]bool{}, asserted: map[string]int{},
		fnEntered: map[*ssa.Function]bool{}, finfo: map[*ssa.Function]*fnInfo{}, icept: map[*ssa.Function]interceptFn{},
		picks: map[string]uint64{}, counters: map[string]int{}, obsTerms: map[string]*Term{}, minfo: map[*ssa.Function]*mergeInfo{},
		noMerge: os.Getenv("GSE_NOMERGE") != "", qsites: os.Getenv("GSE_QSITES") != "", noModel: os.Getenv("GSE_NOMODEL") != "",
	}
	return ex
}

func (ex *Exec) runPath(fn *ssa.Function) (end pathEnd) {
	ex.gens[0] = ex.sols[0].gen
	var q0, s0, u0, k0 int
	var t0 time.Duration
	for _, s := range ex.sols {
		q0, s0, u0, k0, t0 = q0+s.nQueries, s0+s.nSat, u0+s.nUnsat, k0+s.nUnknown, t0+s.solverTime
	}
	defer func() {
		stats.mu.Lock()
		for _, s := range ex.sols {
			stats.q += s.nQueries
			stats.sat += s.nSat
			stats.unsat += s.nUnsat
			stats.unk += s.nUnknown
			stats.t += s.solverTime
			if len(s.errLines) > 0 {
				stats.errs = append(stats.errs, s.errLines...)
				if len(stats.errs) > 20 {
					stats.errs = stats.errs[:20]
				}
				s.errLines = nil
			}
		}
		stats.q -= q0
		stats.sat -= s0
		stats.unsat -= u0
		stats.unk -= k0
		stats.t -= t0
		stats.mu.Unlock()
		r := recover()
		ex.killGoroutines()
		if r != nil {
			if pe, ok := r.(pathEnd); ok {
				end = pe
				return
			}
			if _, ok := r.(killedGor); ok {
				end = pathEnd{kind: endEngine, msg: "main goroutine killed"}
				return
			}
			end = pathEnd{kind: endEngine, msg: fmt.Sprintf("executor panic: %v at %s", r, ex.stack())}
			if os.Getenv("GSE_DEBUG") != "" {
				panic(r)
			}
		}
	}()
	// package initialisation (kcp only), with findings disabled
	ex.w.panicsAreFindings = false
	if init := ex.pkg.Func("init"); init != nil {
		ex.call(nil, init, nil, nil, nil)
	}
	ex.gos = nil
	ex.w.panicsAreFindings = true
	ex.steps = 0
	ex.call(nil, fn, nil, nil, nil)
	ex.ensureFeasible()
	ex.makeWitness()
	return pathEnd{kind: endOK}
}

// makeWitness extracts a model of a completed path (translator validation input).
func (ex *Exec) makeWitness() {
	if !ex.wantWitness || len(ex.findings) > 0 || ex.gmodeOn() {
		// goroutine-mode paths are not replayed natively (a schedule has no native twin)
		return
	}
	if ex.check(ex.ts.True, true) != Sat {
		return
	}
	m, arrs := ex.extractModel()
	w := &Witness{Harness: ex.harness, Model: m, Arrays: arrs, Observes: map[string]uint64{}, Decision: len(ex.trace)}
	var ts []*Term
	for _, l := range ex.obsOrder {
		ts = append(ts, ex.obsTerms[l])
	}
	if len(ts) > 0 {
		vals := ex.sol.GetValues(ts)
		for i, l := range ex.obsOrder {
			w.Observes[l] = vals[i]
			if ex.obsTerms[l].w > 0 && ex.obsTerms[l].w < 64 {
				// native side records int(v): sign- or zero-extension is the harness's business; compare low bits
				w.Observes[l] = vals[i]
			}
		}
	}
	ex.sol.Pop()
	for l := range ex.reached {
		w.Reached = append(w.Reached, l)
	}
	ex.witness = w
}
