package main

// Hash-consed SMT terms (Bool and bit-vectors up to 64 bits, plus byte arrays
// indexed by 64-bit vectors and uninterpreted functions) with light
// normalisation. One TermStore per worker; terms from different stores are
// never mixed.

import (
	"fmt"
	"os"
	"math/bits"
	"sort"
	"strings"
)

type Op uint8

const (
	OpConst Op = iota
	OpVar
	OpAdd
	OpSub
	OpMul
	OpUDiv
	OpURem
	OpSDiv
	OpSRem
	OpAnd
	OpOr
	OpXor
	OpNot
	OpNeg
	OpShl
	OpLShr
	OpAShr
	OpExtract
	OpConcat
	OpZExt
	OpSExt
	OpIte
	OpEq
	OpUlt
	OpUle
	OpSlt
	OpSle
	OpBAnd
	OpBOr
	OpBNot
	OpUF
	OpSelect // args[0] array var, args[1] 64-bit index -> 8-bit
	OpArrVar // array (BV64 -> BV8) variable
)

var opNames = map[Op]string{
	OpAdd: "bvadd", OpSub: "bvsub", OpMul: "bvmul", OpUDiv: "bvudiv", OpURem: "bvurem",
	OpSDiv: "bvsdiv", OpSRem: "bvsrem", OpAnd: "bvand", OpOr: "bvor", OpXor: "bvxor",
	OpNot: "bvnot", OpNeg: "bvneg", OpShl: "bvshl", OpLShr: "bvlshr", OpAShr: "bvashr",
	OpConcat: "concat", OpIte: "ite", OpEq: "=", OpUlt: "bvult", OpUle: "bvule",
	OpSlt: "bvslt", OpSle: "bvsle", OpBAnd: "and", OpBOr: "or", OpBNot: "not", OpSelect: "select",
}

// Term: w == 0 means Bool; w == -1 means byte array.
type Term struct {
	op     Op
	w      int
	args   []*Term
	val    uint64
	name   string
	hi, lo int
	id     int
	hasUF  bool // contains UF/select/array (cannot be evaluated from a scalar model)
}

type TermStore struct {
	liftDepth int
	lift      bool // if-then-else lifting through sums (relational harnesses switch it on)
	facts  map[*Term]bool // truth values implied by the path condition (learned from assumptions)
	tab    map[string]*Term
	nextID int
	True   *Term
	False  *Term
	ufSigs map[string][]int // UF name -> arg widths..., result width last
}

func NewTermStore() *TermStore {
	ts := &TermStore{tab: map[string]*Term{}, ufSigs: map[string][]int{}, facts: map[*Term]bool{}}
	ts.True = ts.mk(&Term{op: OpConst, w: 0, val: 1})
	ts.False = ts.mk(&Term{op: OpConst, w: 0, val: 0})
	return ts
}

func mask(w int) uint64 {
	if w >= 64 {
		return ^uint64(0)
	}
	return (uint64(1) << uint(w)) - 1
}

func (ts *TermStore) mk(t *Term) *Term {
	var sb strings.Builder
	fmt.Fprintf(&sb, "%d:%d:%d:%d:%d:%s", t.op, t.w, t.val, t.hi, t.lo, t.name)
	for _, a := range t.args {
		fmt.Fprintf(&sb, ",%d", a.id)
	}
	k := sb.String()
	if e, ok := ts.tab[k]; ok {
		return e
	}
	ts.nextID++
	t.id = ts.nextID
	for _, a := range t.args {
		if a.hasUF {
			t.hasUF = true
		}
	}
	if t.op == OpUF || t.op == OpSelect || t.op == OpArrVar {
		t.hasUF = true
	}
	ts.tab[k] = t
	return t
}

func (t *Term) IsConst() bool { return t.op == OpConst }
func (t *Term) IsTrue() bool  { return t.op == OpConst && t.w == 0 && t.val == 1 }
func (t *Term) IsFalse() bool { return t.op == OpConst && t.w == 0 && t.val == 0 }

func (ts *TermStore) Const(w int, v uint64) *Term {
	if w == 0 {
		if v != 0 {
			return ts.True
		}
		return ts.False
	}
	return ts.mk(&Term{op: OpConst, w: w, val: v & mask(w)})
}
func (ts *TermStore) Bool(b bool) *Term {
	if b {
		return ts.True
	}
	return ts.False
}
func (ts *TermStore) Var(name string, w int) *Term {
	return ts.mk(&Term{op: OpVar, w: w, name: name})
}
func (ts *TermStore) ArrVar(name string) *Term {
	return ts.mk(&Term{op: OpArrVar, w: -1, name: name})
}
func (ts *TermStore) Select(arr, idx *Term) *Term {
	return ts.mk(&Term{op: OpSelect, w: 8, args: []*Term{arr, idx}})
}
func (ts *TermStore) UF(name string, w int, args ...*Term) *Term {
	if _, ok := ts.ufSigs[name]; !ok {
		sig := make([]int, 0, len(args)+1)
		for _, a := range args {
			sig = append(sig, a.w)
		}
		sig = append(sig, w)
		ts.ufSigs[name] = sig
	}
	return ts.mk(&Term{op: OpUF, w: w, name: name, args: append([]*Term(nil), args...)})
}

func sx(v uint64, w int) int64 {
	if w >= 64 {
		return int64(v)
	}
	if v&(1<<uint(w-1)) != 0 {
		return int64(v | ^mask(w))
	}
	return int64(v)
}

// ---- arithmetic ----

// splitAdd views t as base + c.
func (ts *TermStore) splitAdd(t *Term) (*Term, uint64) {
	if t.op == OpConst {
		return nil, t.val
	}
	if t.op == OpAdd && t.args[1].op == OpConst {
		return t.args[0], t.args[1].val
	}
	return t, 0
}

// linear normal form for +, -, unary minus: sum of coeff*atom + const (mod 2^w).
var noLift = os.Getenv("GSE_NOLIFT") != ""
var noFacts = os.Getenv("GSE_NOFACTS") != ""

type linComb struct {
	atoms map[*Term]uint64
	c     uint64
}

func (ts *TermStore) linAdd(lc *linComb, t *Term, k uint64, depth int) {
	switch {
	case t.op == OpConst:
		lc.c += k * t.val
	case t.op == OpAdd && depth < 64:
		ts.linAdd(lc, t.args[0], k, depth+1)
		ts.linAdd(lc, t.args[1], k, depth+1)
	case t.op == OpSub && depth < 64:
		ts.linAdd(lc, t.args[0], k, depth+1)
		ts.linAdd(lc, t.args[1], -k, depth+1)
	case t.op == OpNeg && depth < 64:
		ts.linAdd(lc, t.args[0], -k, depth+1)
	default:
		lc.atoms[t] += k
	}
}

func (ts *TermStore) linBuild(lc *linComb, w int) *Term {
	// lift a single if-then-else summand: ite(c,a,b) + rest  ==>  ite(c, a+rest, b+rest),
	// so that shifted copies of a conditionally updated value normalise to the same shape
	if ts.lift && ts.liftDepth < 6 && !noLift {
		var it *Term
		n := 0
		for t, k := range lc.atoms {
			if k&mask(w) == 0 {
				continue
			}
			n++
			if t.op == OpIte && k&mask(w) == 1 {
				if it == nil || t.id < it.id {
					it = t
				}
			}
		}
		if it != nil && (n > 1 || lc.c&mask(w) != 0) {
			rest := &linComb{atoms: map[*Term]uint64{}, c: lc.c}
			for t, k := range lc.atoms {
				if t != it {
					rest.atoms[t] = k
				}
			}
			ts.liftDepth++
			mk := func(br *Term) *Term {
				r2 := &linComb{atoms: map[*Term]uint64{}, c: rest.c}
				for t, k := range rest.atoms {
					r2.atoms[t] = k
				}
				ts.linAdd(r2, br, 1, 0)
				return ts.linBuild(r2, w)
			}
			a, b := mk(it.args[1]), mk(it.args[2])
			ts.liftDepth--
			return ts.Ite(it.args[0], a, b)
		}
	}
	type ak struct {
		t *Term
		k uint64
	}
	var pos, neg []ak
	m := mask(w)
	for t, k := range lc.atoms {
		k &= m
		if k == 0 {
			continue
		}
		// coefficients in the upper half are treated as negative
		if k > m/2 {
			neg = append(neg, ak{t, (-k) & m})
		} else {
			pos = append(pos, ak{t, k})
		}
	}
	sort.Slice(pos, func(i, j int) bool { return pos[i].t.id < pos[j].t.id })
	sort.Slice(neg, func(i, j int) bool { return neg[i].t.id < neg[j].t.id })
	scaled := func(a ak) *Term {
		if a.k == 1 {
			return a.t
		}
		return ts.Mul(a.t, ts.Const(w, a.k))
	}
	var r *Term
	for _, a := range pos {
		x := scaled(a)
		if r == nil {
			r = x
		} else {
			r = ts.mk(&Term{op: OpAdd, w: w, args: []*Term{r, x}})
		}
	}
	for _, a := range neg {
		x := scaled(a)
		if r == nil {
			r = ts.mk(&Term{op: OpNeg, w: w, args: []*Term{x}})
		} else {
			r = ts.mk(&Term{op: OpSub, w: w, args: []*Term{r, x}})
		}
	}
	c := lc.c & m
	if r == nil {
		return ts.Const(w, c)
	}
	if c != 0 {
		r = ts.mk(&Term{op: OpAdd, w: w, args: []*Term{r, ts.Const(w, c)}})
	}
	return r
}

func (ts *TermStore) Add(a, b *Term) *Term {
	w := a.w
	if a.op == OpConst && b.op == OpConst {
		return ts.Const(w, a.val+b.val)
	}
	lc := &linComb{atoms: map[*Term]uint64{}}
	ts.linAdd(lc, a, 1, 0)
	ts.linAdd(lc, b, 1, 0)
	return ts.linBuild(lc, w)
}

func (ts *TermStore) Sub(a, b *Term) *Term {
	w := a.w
	if a == b {
		return ts.Const(w, 0)
	}
	if a.op == OpConst && b.op == OpConst {
		return ts.Const(w, a.val-b.val)
	}
	lc := &linComb{atoms: map[*Term]uint64{}}
	ts.linAdd(lc, a, 1, 0)
	ts.linAdd(lc, b, ^uint64(0), 0)
	return ts.linBuild(lc, w)
}

func (ts *TermStore) Neg(a *Term) *Term {
	if a.op == OpConst {
		return ts.Const(a.w, -a.val)
	}
	lc := &linComb{atoms: map[*Term]uint64{}}
	ts.linAdd(lc, a, ^uint64(0), 0)
	return ts.linBuild(lc, a.w)
}

func (ts *TermStore) Mul(a, b *Term) *Term {
	w := a.w
	if a.op == OpConst && b.op == OpConst {
		return ts.Const(w, a.val*b.val)
	}
	if a.op == OpConst {
		a, b = b, a
	}
	if b.op == OpConst {
		switch b.val {
		case 0:
			return b
		case 1:
			return a
		}
		if bits.OnesCount64(b.val) == 1 {
			return ts.Shl(a, ts.Const(w, uint64(bits.TrailingZeros64(b.val))))
		}
	}
	return ts.mk(&Term{op: OpMul, w: w, args: []*Term{a, b}})
}

func (ts *TermStore) UDiv(a, b *Term) *Term {
	w := a.w
	if b.op == OpConst && b.val != 0 {
		if a.op == OpConst {
			return ts.Const(w, a.val/b.val)
		}
		if b.val == 1 {
			return a
		}
		if bits.OnesCount64(b.val) == 1 {
			return ts.LShr(a, ts.Const(w, uint64(bits.TrailingZeros64(b.val))))
		}
	}
	return ts.mk(&Term{op: OpUDiv, w: w, args: []*Term{a, b}})
}
func (ts *TermStore) URem(a, b *Term) *Term {
	w := a.w
	if b.op == OpConst && b.val != 0 {
		if a.op == OpConst {
			return ts.Const(w, a.val%b.val)
		}
		if b.val == 1 {
			return ts.Const(w, 0)
		}
		if bits.OnesCount64(b.val) == 1 {
			return ts.And(a, ts.Const(w, b.val-1))
		}
	}
	return ts.mk(&Term{op: OpURem, w: w, args: []*Term{a, b}})
}
func (ts *TermStore) SDiv(a, b *Term) *Term {
	w := a.w
	if a.op == OpConst && b.op == OpConst && b.val != 0 {
		x, y := sx(a.val, w), sx(b.val, w)
		if y == -1 {
			return ts.Const(w, uint64(-x))
		}
		return ts.Const(w, uint64(x/y))
	}
	if b.op == OpConst && b.val == 1 {
		return a
	}
	return ts.mk(&Term{op: OpSDiv, w: w, args: []*Term{a, b}})
}
func (ts *TermStore) SRem(a, b *Term) *Term {
	w := a.w
	if a.op == OpConst && b.op == OpConst && b.val != 0 {
		x, y := sx(a.val, w), sx(b.val, w)
		if y == -1 {
			return ts.Const(w, 0)
		}
		return ts.Const(w, uint64(x%y))
	}
	return ts.mk(&Term{op: OpSRem, w: w, args: []*Term{a, b}})
}

// ---- bitwise ----

func (ts *TermStore) And(a, b *Term) *Term {
	w := a.w
	if a.op == OpConst && b.op == OpConst {
		return ts.Const(w, a.val&b.val)
	}
	if a.op == OpConst {
		a, b = b, a
	}
	if b.op == OpConst {
		if b.val == 0 {
			return b
		}
		if b.val == mask(w) {
			return a
		}
		// low mask: zero-extend of an extract
		if b.val&(b.val+1) == 0 {
			k := bits.Len64(b.val)
			return ts.ZExt(ts.Extract(a, k-1, 0), w)
		}
	}
	if a == b {
		return a
	}
	if a.id > b.id {
		a, b = b, a
	}
	return ts.mk(&Term{op: OpAnd, w: w, args: []*Term{a, b}})
}

// seg describes a slice of a concat view: either zeros or bits [hi:lo] of t.
type seg struct {
	t  *Term // nil = zeros
	w  int
	hi int
	lo int
}

// segsOf decomposes t (most-significant first) into concat/zext/shl-by-const pieces.
func (ts *TermStore) segsOf(t *Term) []seg {
	switch t.op {
	case OpConst:
		if t.val == 0 {
			return []seg{{nil, t.w, 0, 0}}
		}
	case OpConcat:
		var out []seg
		for _, a := range t.args {
			out = append(out, ts.segsOf(a)...)
		}
		return out
	case OpZExt:
		in := t.args[0]
		return append([]seg{{nil, t.w - in.w, 0, 0}}, ts.segsOf(in)...)
	case OpExtract:
		return []seg{{t.args[0], t.w, t.hi, t.lo}}
	}
	return []seg{{t, t.w, t.w - 1, 0}}
}

func (ts *TermStore) fromSegs(segs []seg) *Term {
	// merge adjacent
	var m []seg
	for _, s := range segs {
		if s.w == 0 {
			continue
		}
		if n := len(m); n > 0 {
			p := &m[n-1]
			if p.t == nil && s.t == nil {
				p.w += s.w
				continue
			}
			if p.t != nil && p.t == s.t && p.lo == s.hi+1 {
				p.lo = s.lo
				p.w += s.w
				continue
			}
		}
		m = append(m, s)
	}
	var parts []*Term
	for _, s := range m {
		if s.t == nil {
			parts = append(parts, ts.Const(s.w, 0))
		} else {
			parts = append(parts, ts.extractRaw(s.t, s.hi, s.lo))
		}
	}
	if len(parts) == 1 {
		return parts[0]
	}
	// leading zeros become a zext
	tot := 0
	for _, p := range parts {
		tot += p.w
	}
	if parts[0].op == OpConst && parts[0].val == 0 {
		rest := ts.concatRaw(parts[1:])
		return ts.mk(&Term{op: OpZExt, w: tot, args: []*Term{rest}})
	}
	return ts.concatRaw(parts)
}

func (ts *TermStore) concatRaw(parts []*Term) *Term {
	if len(parts) == 1 {
		return parts[0]
	}
	tot := 0
	allc := true
	for _, p := range parts {
		tot += p.w
		if p.op != OpConst {
			allc = false
		}
	}
	if allc {
		var v uint64
		for _, p := range parts {
			v = v<<uint(p.w) | p.val
		}
		return ts.Const(tot, v)
	}
	return ts.mk(&Term{op: OpConcat, w: tot, args: append([]*Term(nil), parts...)})
}

func (ts *TermStore) extractRaw(t *Term, hi, lo int) *Term {
	if lo == 0 && hi == t.w-1 {
		return t
	}
	if t.op == OpConst {
		return ts.Const(hi-lo+1, t.val>>uint(lo))
	}
	return ts.mk(&Term{op: OpExtract, w: hi - lo + 1, args: []*Term{t}, hi: hi, lo: lo})
}

// cutSegs returns the segments covering bits [hi:lo] of the concat view.
func cutSegs(segs []seg, tot, hi, lo int) []seg {
	var out []seg
	pos := tot // exclusive upper bit of current seg
	for _, s := range segs {
		top := pos - 1
		bot := pos - s.w
		pos = bot
		if bot > hi || top < lo {
			continue
		}
		h := min(top, hi)
		l := max(bot, lo)
		ns := seg{t: s.t, w: h - l + 1}
		if s.t != nil {
			ns.hi = s.hi - (top - h)
			ns.lo = s.lo + (l - bot)
		}
		out = append(out, ns)
	}
	return out
}

func (ts *TermStore) Extract(t *Term, hi, lo int) *Term {
	if lo == 0 && hi == t.w-1 {
		return t
	}
	switch t.op {
	case OpConst:
		return ts.Const(hi-lo+1, t.val>>uint(lo))
	case OpConcat, OpZExt, OpExtract:
		return ts.fromSegs(cutSegs(ts.segsOf(t), t.w, hi, lo))
	case OpSExt:
		in := t.args[0]
		if hi < in.w {
			return ts.Extract(in, hi, lo)
		}
	case OpAnd, OpOr, OpXor:
		if lo == 0 || true {
			a := ts.Extract(t.args[0], hi, lo)
			b := ts.Extract(t.args[1], hi, lo)
			switch t.op {
			case OpAnd:
				return ts.And(a, b)
			case OpOr:
				return ts.Or(a, b)
			default:
				return ts.Xor(a, b)
			}
		}
	case OpIte:
		if t.args[1].op == OpConst || t.args[2].op == OpConst {
			return ts.Ite(t.args[0], ts.Extract(t.args[1], hi, lo), ts.Extract(t.args[2], hi, lo))
		}
	case OpLShr:
		if t.args[1].op == OpConst {
			k := int(t.args[1].val)
			if hi+k < t.w {
				return ts.Extract(t.args[0], hi+k, lo+k)
			}
		}
	case OpShl:
		if t.args[1].op == OpConst {
			k := int(t.args[1].val)
			if lo >= k {
				return ts.Extract(t.args[0], hi-k, lo-k)
			}
		}
	}
	return ts.extractRaw(t, hi, lo)
}

func (ts *TermStore) Concat(parts ...*Term) *Term {
	var segs []seg
	for _, p := range parts {
		segs = append(segs, ts.segsOf(p)...)
	}
	return ts.fromSegs(segs)
}

func (ts *TermStore) ZExt(t *Term, w int) *Term {
	if w == t.w {
		return t
	}
	if t.op == OpConst {
		return ts.Const(w, t.val)
	}
	if t.op == OpZExt {
		t = t.args[0]
	}
	return ts.mk(&Term{op: OpZExt, w: w, args: []*Term{t}})
}
func (ts *TermStore) SExt(t *Term, w int) *Term {
	if w == t.w {
		return t
	}
	if t.op == OpConst {
		return ts.Const(w, uint64(sx(t.val, t.w)))
	}
	if t.op == OpZExt {
		return ts.ZExt(t.args[0], w)
	}
	return ts.mk(&Term{op: OpSExt, w: w, args: []*Term{t}})
}

// disjointOr tries to merge two zero-padded views whose non-zero bits do not overlap.
func (ts *TermStore) disjointOr(a, b *Term) *Term {
	sa, sb := ts.segsOf(a), ts.segsOf(b)
	hasZero := func(s []seg) bool {
		for _, x := range s {
			if x.t == nil {
				return true
			}
		}
		return false
	}
	if !hasZero(sa) || !hasZero(sb) {
		return nil
	}
	w := a.w
	// boundaries
	cuts := map[int]bool{0: true, w: true}
	pos := w
	for _, s := range sa {
		pos -= s.w
		cuts[pos] = true
	}
	pos = w
	for _, s := range sb {
		pos -= s.w
		cuts[pos] = true
	}
	var cs []int
	for c := range cuts {
		cs = append(cs, c)
	}
	sort.Sort(sort.Reverse(sort.IntSlice(cs)))
	var out []seg
	for i := 0; i+1 < len(cs); i++ {
		hi, lo := cs[i]-1, cs[i+1]
		pa := cutSegs(sa, w, hi, lo)
		pb := cutSegs(sb, w, hi, lo)
		if len(pa) != 1 || len(pb) != 1 {
			return nil
		}
		switch {
		case pa[0].t == nil:
			out = append(out, pb[0])
		case pb[0].t == nil:
			out = append(out, pa[0])
		default:
			return nil
		}
	}
	return ts.fromSegs(out)
}

func (ts *TermStore) Or(a, b *Term) *Term {
	w := a.w
	if a.op == OpConst && b.op == OpConst {
		return ts.Const(w, a.val|b.val)
	}
	if a.op == OpConst {
		a, b = b, a
	}
	if b.op == OpConst {
		if b.val == 0 {
			return a
		}
		if b.val == mask(w) {
			return b
		}
	}
	if a == b {
		return a
	}
	if m := ts.disjointOr(a, b); m != nil {
		return m
	}
	if a.id > b.id {
		a, b = b, a
	}
	return ts.mk(&Term{op: OpOr, w: w, args: []*Term{a, b}})
}

func (ts *TermStore) xorLeaves(t *Term, out *[]*Term, c *uint64) {
	if t.op == OpXor {
		ts.xorLeaves(t.args[0], out, c)
		ts.xorLeaves(t.args[1], out, c)
		return
	}
	if t.op == OpConst {
		*c ^= t.val
		return
	}
	*out = append(*out, t)
}

func (ts *TermStore) Xor(a, b *Term) *Term {
	w := a.w
	if a.op == OpConst && b.op == OpConst {
		return ts.Const(w, a.val^b.val)
	}
	var leaves []*Term
	var c uint64
	ts.xorLeaves(a, &leaves, &c)
	ts.xorLeaves(b, &leaves, &c)
	sort.Slice(leaves, func(i, j int) bool { return leaves[i].id < leaves[j].id })
	var kept []*Term
	for i := 0; i < len(leaves); i++ {
		if i+1 < len(leaves) && leaves[i] == leaves[i+1] {
			i++
			continue
		}
		kept = append(kept, leaves[i])
	}
	var r *Term
	for _, l := range kept {
		if r == nil {
			r = l
		} else {
			r = ts.mk(&Term{op: OpXor, w: w, args: []*Term{r, l}})
		}
	}
	c &= mask(w)
	if r == nil {
		return ts.Const(w, c)
	}
	if c != 0 {
		if c == mask(w) && false {
			return ts.Not(r)
		}
		r = ts.mk(&Term{op: OpXor, w: w, args: []*Term{r, ts.Const(w, c)}})
	}
	return r
}

func (ts *TermStore) Not(a *Term) *Term {
	if a.op == OpConst {
		return ts.Const(a.w, ^a.val)
	}
	if a.op == OpNot {
		return a.args[0]
	}
	return ts.mk(&Term{op: OpNot, w: a.w, args: []*Term{a}})
}

func (ts *TermStore) Shl(a, b *Term) *Term {
	w := a.w
	if b.op == OpConst {
		k := b.val
		if k == 0 {
			return a
		}
		if k >= uint64(w) {
			return ts.Const(w, 0)
		}
		if a.op == OpConst {
			return ts.Const(w, a.val<<k)
		}
		// concat(extract(a, w-1-k, 0), zeros k)
		return ts.fromSegs(append(cutSegs(ts.segsOf(a), w, w-1-int(k), 0), seg{nil, int(k), 0, 0}))
	}
	if a.op == OpConst && a.val == 0 {
		return a
	}
	return ts.mk(&Term{op: OpShl, w: w, args: []*Term{a, b}})
}
func (ts *TermStore) LShr(a, b *Term) *Term {
	w := a.w
	if b.op == OpConst {
		k := b.val
		if k == 0 {
			return a
		}
		if k >= uint64(w) {
			return ts.Const(w, 0)
		}
		if a.op == OpConst {
			return ts.Const(w, a.val>>k)
		}
		return ts.fromSegs(append([]seg{{nil, int(k), 0, 0}}, cutSegs(ts.segsOf(a), w, w-1, int(k))...))
	}
	if a.op == OpConst && a.val == 0 {
		return a
	}
	return ts.mk(&Term{op: OpLShr, w: w, args: []*Term{a, b}})
}
func (ts *TermStore) AShr(a, b *Term) *Term {
	w := a.w
	if b.op == OpConst {
		k := b.val
		if k == 0 {
			return a
		}
		if k >= uint64(w) {
			k = uint64(w - 1)
		}
		if a.op == OpConst {
			return ts.Const(w, uint64(sx(a.val, w)>>k))
		}
		return ts.SExt(ts.Extract(a, w-1, int(k)), w)
	}
	return ts.mk(&Term{op: OpAShr, w: w, args: []*Term{a, b}})
}

// ---- predicates ----

func (ts *TermStore) Eq(a, b *Term) *Term {
	if a == b {
		return ts.True
	}
	if a.w != b.w {
		panic(fmt.Sprintf("Eq width mismatch %d vs %d: %s / %s", a.w, b.w, ts.Show(a), ts.Show(b)))
	}
	if a.op == OpConst && b.op == OpConst {
		return ts.Bool(a.val == b.val)
	}
	if ts.lift && a.w > 0 && a.op == OpIte && b.op == OpIte && a.args[0] == b.args[0] {
		c := a.args[0]
		return ts.BOr(ts.BAnd(c, ts.Eq(a.args[1], b.args[1])), ts.BAnd(ts.BNot(c), ts.Eq(a.args[2], b.args[2])))
	}
	if a.w == 0 {
		if a.op == OpConst {
			a, b = b, a
		}
		if b.IsTrue() {
			return a
		}
		if b.IsFalse() {
			return ts.BNot(a)
		}
	} else {
		if a.op == OpConst {
			a, b = b, a
		}
		if b.op == OpConst {
			if a.op == OpAdd && a.args[1].op == OpConst {
				return ts.Eq(a.args[0], ts.Const(a.w, b.val-a.args[1].val))
			}
			if a.op == OpZExt {
				in := a.args[0]
				if b.val > mask(in.w) {
					return ts.False
				}
				return ts.Eq(in, ts.Const(in.w, b.val))
			}
			if a.op == OpIte && a.args[1].op == OpConst && a.args[2].op == OpConst {
				// ite(c, k1, k2) == k
				t1, t2 := a.args[1].val == b.val, a.args[2].val == b.val
				switch {
				case t1 && t2:
					return ts.True
				case t1:
					return a.args[0]
				case t2:
					return ts.BNot(a.args[0])
				default:
					return ts.False
				}
			}
		} else {
			ab, ac := ts.splitAdd(a)
			bb, bc := ts.splitAdd(b)
			if ab == bb && ab != nil {
				return ts.Bool(ac == bc)
			}
			if a.op == OpZExt && b.op == OpZExt && a.args[0].w == b.args[0].w {
				return ts.Eq(a.args[0], b.args[0])
			}
		}
	}
	if a.id > b.id {
		a, b = b, a
	}
	return ts.mk(&Term{op: OpEq, w: 0, args: []*Term{a, b}})
}

func (ts *TermStore) Ult(a, b *Term) *Term {
	if a == b {
		return ts.False
	}
	if a.op == OpConst && b.op == OpConst {
		return ts.Bool(a.val < b.val)
	}
	if b.op == OpConst && b.val == 0 {
		return ts.False
	}
	if a.op == OpConst && a.val == mask(a.w) {
		return ts.False
	}
	if a.op == OpZExt && b.op == OpConst && b.val > mask(a.args[0].w) {
		return ts.True
	}
	if a.op == OpZExt && b.op == OpZExt && a.args[0].w == b.args[0].w {
		return ts.Ult(a.args[0], b.args[0])
	}
	return ts.mk(&Term{op: OpUlt, w: 0, args: []*Term{a, b}})
}
func (ts *TermStore) Ule(a, b *Term) *Term { return ts.BNot(ts.Ult(b, a)) }
func (ts *TermStore) Slt(a, b *Term) *Term {
	if a == b {
		return ts.False
	}
	if a.op == OpConst && b.op == OpConst {
		return ts.Bool(sx(a.val, a.w) < sx(b.val, b.w))
	}
	// both zero-extended from narrower: unsigned compare
	if a.op == OpZExt && b.op == OpZExt {
		return ts.Ult(a, b)
	}
	if a.op == OpZExt && b.op == OpConst && sx(b.val, b.w) >= 0 {
		return ts.Ult(a, b)
	}
	if b.op == OpZExt && a.op == OpConst && sx(a.val, a.w) >= 0 {
		return ts.Ult(a, b)
	}
	return ts.mk(&Term{op: OpSlt, w: 0, args: []*Term{a, b}})
}
func (ts *TermStore) Sle(a, b *Term) *Term { return ts.BNot(ts.Slt(b, a)) }

func (ts *TermStore) BNot(a *Term) *Term {
	if a.op == OpConst {
		return ts.Bool(a.val == 0)
	}
	if a.op == OpBNot {
		return a.args[0]
	}
	return ts.mk(&Term{op: OpBNot, w: 0, args: []*Term{a}})
}
func (ts *TermStore) BAnd(a, b *Term) *Term {
	if k, ok := ts.known(a); ok {
		a = k
	}
	if k, ok := ts.known(b); ok {
		b = k
	}
	if a.IsFalse() || b.IsFalse() {
		return ts.False
	}
	if a.IsTrue() {
		return b
	}
	if b.IsTrue() || a == b {
		return a
	}
	if ts.BNot(a) == b {
		return ts.False
	}
	return ts.mk(&Term{op: OpBAnd, w: 0, args: []*Term{a, b}})
}
func (ts *TermStore) BOr(a, b *Term) *Term {
	if k, ok := ts.known(a); ok {
		a = k
	}
	if k, ok := ts.known(b); ok {
		b = k
	}
	if a.IsTrue() || b.IsTrue() {
		return ts.True
	}
	if a.IsFalse() {
		return b
	}
	if b.IsFalse() || a == b {
		return a
	}
	if ts.BNot(a) == b {
		return ts.True
	}
	return ts.mk(&Term{op: OpBOr, w: 0, args: []*Term{a, b}})
}
func (ts *TermStore) Implies(a, b *Term) *Term { return ts.BOr(ts.BNot(a), b) }

// Learn records what an assumed condition implies about other boolean terms.
func (ts *TermStore) Learn(c *Term) {
	if c.w != 0 || c.op == OpConst {
		return
	}
	ts.facts[c] = true
	switch c.op {
	case OpBNot:
		ts.learnFalse(c.args[0])
	case OpBAnd:
		ts.Learn(c.args[0])
		ts.Learn(c.args[1])
	case OpUlt:
		// a < b  =>  b != 0, a != b, not (b < a)
		ts.setFact(ts.Eq(c.args[1], ts.Const(c.args[1].w, 0)), false)
		ts.setFact(ts.Eq(c.args[0], c.args[1]), false)
		ts.setFact(ts.Ult(c.args[1], c.args[0]), false)
	case OpSlt:
		ts.setFact(ts.Eq(c.args[0], c.args[1]), false)
		ts.setFact(ts.Slt(c.args[1], c.args[0]), false)
	}
}

func (ts *TermStore) learnFalse(c *Term) {
	ts.setFact(c, false)
	switch c.op {
	case OpBOr:
		ts.learnFalse(c.args[0])
		ts.learnFalse(c.args[1])
	case OpBNot:
		ts.Learn(c.args[0])
	case OpEq:
		// a != 0 (unsigned): 0 < a
		if c.args[0].w > 0 {
			for i := 0; i < 2; i++ {
				if k := c.args[i]; k.op == OpConst && k.val == 0 {
					ts.setFact(ts.Ult(k, c.args[1-i]), true)
				}
			}
		}
	}
}

func (ts *TermStore) setFact(c *Term, v bool) {
	if c.op == OpConst {
		return
	}
	if c.op == OpBNot {
		ts.facts[c.args[0]] = !v
		return
	}
	ts.facts[c] = v
}

func (ts *TermStore) known(c *Term) (*Term, bool) {
	if noFacts {
		return nil, false
	}
	if v, ok := ts.facts[c]; ok {
		return ts.Bool(v), true
	}
	if c.op == OpBNot {
		if v, ok := ts.facts[c.args[0]]; ok {
			return ts.Bool(!v), true
		}
	}
	return nil, false
}

func (ts *TermStore) Ite(c, a, b *Term) *Term {
	if k, ok := ts.known(c); ok {
		c = k
	}
	if c.IsTrue() {
		return a
	}
	if c.IsFalse() {
		return b
	}
	if a == b {
		return a
	}
	if a.w == 0 {
		if a.IsTrue() && b.IsFalse() {
			return c
		}
		if a.IsFalse() && b.IsTrue() {
			return ts.BNot(c)
		}
		return ts.BOr(ts.BAnd(c, a), ts.BAnd(ts.BNot(c), b))
	}
	if c.op == OpBNot {
		return ts.Ite(c.args[0], b, a)
	}
	return ts.mk(&Term{op: OpIte, w: a.w, args: []*Term{c, a, b}})
}

// ---- printing ----

func smtConst(w int, v uint64) string {
	if w%4 == 0 {
		return fmt.Sprintf("#x%0*x", w/4, v)
	}
	return fmt.Sprintf("#b%0*b", w, v)
}

func smtName(n string) string { return "|" + n + "|" }

func sortOf(w int) string {
	switch w {
	case 0:
		return "Bool"
	case -1:
		return "(Array (_ BitVec 64) (_ BitVec 8))"
	}
	return fmt.Sprintf("(_ BitVec %d)", w)
}

// body prints one level of t, referring to non-leaf arguments by name.
func (ts *TermStore) body(t *Term, ref func(*Term) string) string {
	switch t.op {
	case OpConst:
		if t.w == 0 {
			if t.val != 0 {
				return "true"
			}
			return "false"
		}
		return smtConst(t.w, t.val)
	case OpVar, OpArrVar:
		return smtName(t.name)
	case OpExtract:
		return fmt.Sprintf("((_ extract %d %d) %s)", t.hi, t.lo, ref(t.args[0]))
	case OpZExt:
		return fmt.Sprintf("((_ zero_extend %d) %s)", t.w-t.args[0].w, ref(t.args[0]))
	case OpSExt:
		return fmt.Sprintf("((_ sign_extend %d) %s)", t.w-t.args[0].w, ref(t.args[0]))
	case OpUF:
		if len(t.args) == 0 {
			return smtName(t.name)
		}
		var sb strings.Builder
		sb.WriteString("(" + smtName(t.name))
		for _, a := range t.args {
			sb.WriteString(" " + ref(a))
		}
		sb.WriteString(")")
		return sb.String()
	}
	var sb strings.Builder
	sb.WriteString("(" + opNames[t.op])
	for _, a := range t.args {
		sb.WriteString(" " + ref(a))
	}
	sb.WriteString(")")
	return sb.String()
}

// Show renders a term fully (debugging, samples); depth-limited.
func (ts *TermStore) Show(t *Term) string { return ts.show(t, 6) }
func (ts *TermStore) show(t *Term, d int) string {
	if d == 0 {
		return "…"
	}
	return ts.body(t, func(a *Term) string { return ts.show(a, d-1) })
}

// ---- evaluation under a scalar model ----

type Model struct {
	vals map[string]uint64            // scalar vars
	arrs map[string]map[uint64]uint64 // array vars: explicit entries
	ufs  func(name string, args []uint64) (uint64, bool)
}

func (ts *TermStore) Eval(t *Term, m *Model, cache map[*Term]uint64) (uint64, bool) {
	if v, ok := cache[t]; ok {
		return v, true
	}
	var av [3]uint64
	args := av[:0]
	if t.op != OpIte && t.op != OpUF {
		for _, a := range t.args {
			if a.op == OpArrVar {
				args = append(args, 0)
				continue
			}
			v, ok := ts.Eval(a, m, cache)
			if !ok {
				return 0, false
			}
			args = append(args, v)
		}
	}
	w := t.w
	var r uint64
	b2u := func(b bool) uint64 {
		if b {
			return 1
		}
		return 0
	}
	switch t.op {
	case OpConst:
		r = t.val
	case OpVar:
		v, ok := m.vals[t.name]
		if !ok {
			v = 0
		}
		r = v
	case OpSelect:
		a := m.arrs[t.args[0].name]
		r = a[args[1]]
	case OpUF:
		if m.ufs == nil {
			return 0, false
		}
		var ua []uint64
		for _, a := range t.args {
			v, ok := ts.Eval(a, m, cache)
			if !ok {
				return 0, false
			}
			ua = append(ua, v)
		}
		v, ok := m.ufs(t.name, ua)
		if !ok {
			return 0, false
		}
		r = v
	case OpAdd:
		r = args[0] + args[1]
	case OpSub:
		r = args[0] - args[1]
	case OpMul:
		r = args[0] * args[1]
	case OpUDiv:
		if args[1] == 0 {
			r = mask(w)
		} else {
			r = args[0] / args[1]
		}
	case OpURem:
		if args[1] == 0 {
			r = args[0]
		} else {
			r = args[0] % args[1]
		}
	case OpSDiv:
		x, y := sx(args[0], w), sx(args[1], w)
		if y == 0 {
			if x >= 0 {
				r = mask(w)
			} else {
				r = 1
			}
		} else if y == -1 {
			r = uint64(-x)
		} else {
			r = uint64(x / y)
		}
	case OpSRem:
		x, y := sx(args[0], w), sx(args[1], w)
		if y == 0 {
			r = uint64(x)
		} else if y == -1 {
			r = 0
		} else {
			r = uint64(x % y)
		}
	case OpAnd:
		r = args[0] & args[1]
	case OpOr:
		r = args[0] | args[1]
	case OpXor:
		r = args[0] ^ args[1]
	case OpNot:
		r = ^args[0]
	case OpNeg:
		r = -args[0]
	case OpShl:
		if args[1] >= uint64(w) {
			r = 0
		} else {
			r = args[0] << args[1]
		}
	case OpLShr:
		if args[1] >= uint64(w) {
			r = 0
		} else {
			r = args[0] >> args[1]
		}
	case OpAShr:
		k := args[1]
		if k >= uint64(w) {
			k = uint64(w - 1)
		}
		r = uint64(sx(args[0], w) >> k)
	case OpExtract:
		r = args[0] >> uint(t.lo)
	case OpConcat:
		for i, a := range t.args {
			r = r<<uint(a.w) | (args[i] & mask(a.w))
		}
	case OpZExt:
		r = args[0]
	case OpSExt:
		r = uint64(sx(args[0], t.args[0].w))
	case OpIte:
		c, ok := ts.Eval(t.args[0], m, cache)
		if !ok {
			return 0, false
		}
		var ok2 bool
		if c != 0 {
			r, ok2 = ts.Eval(t.args[1], m, cache)
		} else {
			r, ok2 = ts.Eval(t.args[2], m, cache)
		}
		if !ok2 {
			return 0, false
		}
	case OpEq:
		r = b2u(args[0] == args[1])
	case OpUlt:
		r = b2u(args[0] < args[1])
	case OpUle:
		r = b2u(args[0] <= args[1])
	case OpSlt:
		r = b2u(sx(args[0], t.args[0].w) < sx(args[1], t.args[0].w))
	case OpSle:
		r = b2u(sx(args[0], t.args[0].w) <= sx(args[1], t.args[0].w))
	case OpBAnd:
		r = args[0] & args[1]
	case OpBOr:
		r = args[0] | args[1]
	case OpBNot:
		r = args[0] ^ 1
	default:
		return 0, false
	}
	if w > 0 {
		r &= mask(w)
	} else {
		r &= 1
	}
	cache[t] = r
	return r, true
}
