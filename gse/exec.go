package main

import (
	"fmt"
	"go/constant"
	"go/token"
	"go/types"
	"strings"
	"sync"
	"time"

	"golang.org/x/tools/go/ssa"
)

type endKind int

const (
	endOK endKind = iota
	endInfeasible
	endPanic       // explicit/implicit Go panic reached on a feasible path (already reported)
	endBlocked     // sequential mode: blocking operation with nothing ready
	endUnsupported // executor cannot model something: inconclusive
	endBudget      // step / loop budget exhausted: inconclusive
	endEngine      // internal inconsistency: inconclusive
	endExit        // harness asked to stop the path (vfStop)
)

func (k endKind) String() string {
	return [...]string{"ok", "infeasible", "panic", "blocked", "unsupported", "budget", "engine", "exit"}[k]
}

type pathEnd struct {
	kind endKind
	msg  string
}

type Decision struct {
	Choice int      // branch alternative / scheduler choice
	Val    uint64   // concretised value (Kind == 'v')
	Excl   []uint64 // values excluded so far when enumerating (pending concretisation)
	Kind   byte     // 'b' branch, 'v' value, 'p' pending value enumeration
}

type Finding struct {
	Label   string
	Msg     string
	Site    string
	Model   map[string]uint64
	Arrays  map[string][]uint64
	Prefix  []Decision
	Harness string
	Kind    string // "assert", "panic", "ghost"
}

type Frame struct {
	fn     *ssa.Function
	regs   []Value
	env    []Value
	args   []Value
	defers []func()
	caller *Frame
	site   ssa.Instruction
}

type fnInfo struct {
	slot map[ssa.Value]int
	n    int
}

type inputVar struct {
	name string
	t    *Term
	arr  *Term // array var (t == nil)
	n    int   // array length to dump
}

type Exec struct {
	w    *World
	prog *ssa.Program
	pkg  *ssa.Package
	ts   *TermStore
	sol  *Solver   // solver holding the current model after check(..., keep=true)
	sols []*Solver // portfolio: primary first, the others are consulted on unknown
	gens []int

	harness string
	pc      []*Term
	prefix  []Decision
	dpos    int
	trace   []Decision // decisions taken on this path
	forks   [][]Decision

	globals map[*ssa.Global]*Value
	locks   map[*Value]*lockState
	onces   map[*Value]bool
	avals   map[*Value]Value

	inputs    []inputVar
	inputSeen map[string]bool
	fresh     int
	allocID   int
	allocs    int
	steps     int
	maxSteps  int
	deadline  time.Time // wall-clock budget of the harness (zero: none)
	depth     int
	cur       *Frame

	findings    []Finding
	reached     map[string]bool
	asserted    map[string]int // label -> discharged count
	fnEntered   map[*ssa.Function]bool
	observes    []string
	obsTerms    map[string]*Term
	obsOrder    []string
	witness     *Witness
	foundLabels *sync.Map
	wantWitness bool
	fixed       *modelFile
	incon       []string // inconclusive notes (unknown verdicts)

	// environment stubs
	clockBase  *Term // 32-bit ms clock as of the current API call
	clockReads int
	clockSlack uint64
	nowNs      *Term // time.Now() in ns (64-bit)
	pool       poolState
	emitted    []Value // datagrams captured by native output callback
	schedCalls []schedCall
	sched      *scheduler
	vtimers    map[*Value]*vtimer
	gos        []goCall

	// write-set journal
	journal   bool
	wCells    map[*Value]bool
	wArrs     map[*ArrObj]bool
	wOther    map[interface{}]bool
	monitor   *lockMonitor
	monitorOn bool
	picks     map[string]uint64
	qsites    bool
	pcDirty   bool   // assumptions were added without a feasibility check
	model     *Model // a model of the current path condition (nil if none is known)
	mcache    map[*Term]uint64
	noModel   bool
	lastModel *Model
	minfo     map[*ssa.Function]*mergeInfo
	noMerge   bool
	finfo     map[*ssa.Function]*fnInfo
	icept     map[*ssa.Function]interceptFn
	counters  map[string]int
	rsWords   []*rsCodeword
}

type schedCall struct {
	fn       Value
	deadline Value
}
type goCall struct {
	fn   Value
	args []Value
}

type lockState struct {
	held    bool
	readers int
	owner   int
}

var initWhitelist = map[string]bool{"io": true}

type interceptFn func(ex *Exec, fr *Frame, args []Value, site ssa.Instruction) Value

func (ex *Exec) info(fn *ssa.Function) *fnInfo {
	if fi, ok := ex.finfo[fn]; ok {
		return fi
	}
	fi := &fnInfo{slot: map[ssa.Value]int{}}
	for _, p := range fn.Params {
		fi.slot[p] = fi.n
		fi.n++
	}
	for _, b := range fn.Blocks {
		for _, in := range b.Instrs {
			if v, ok := in.(ssa.Value); ok {
				fi.slot[v] = fi.n
				fi.n++
			}
		}
	}
	ex.finfo[fn] = fi
	return fi
}

// ---------- path condition and decisions ----------

func (ex *Exec) assume(c *Term) {
	if c.IsTrue() {
		return
	}
	ex.pc = append(ex.pc, c)
	if ex.model != nil {
		if v, ok := ex.evalModel(c); !ok || v == 0 {
			ex.model = nil
		}
	}
	ex.ts.Learn(c)
	p := ex.sols[0]
	if p.gen == ex.gens[0] {
		func() {
			defer func() {
				if r := recover(); r != nil {
					if _, ok := r.(solverDied); !ok {
						panic(r)
					}
					p.restart()
				}
			}()
			p.Assert(c)
		}()
	}
}

// sync makes solver i hold exactly the current path condition.
func (ex *Exec) syncSolver(i int) {
	s := ex.sols[i]
	if s.gen == ex.gens[i] && i == 0 {
		return
	}
	s.ts = ex.ts
	s.Reset()
	for _, c := range ex.pc {
		s.Assert(c)
	}
	ex.gens[i] = s.gen
}

func (ex *Exec) check(extra *Term, keep bool) Verdict {
	if extra.IsFalse() {
		return Unsat
	}
	if !ex.deadline.IsZero() && time.Now().After(ex.deadline) {
		panic(pathEnd{kind: endBudget, msg: "wall-clock budget of the harness exhausted"})
	}
	if ex.qsites {
		ex.counters["q@"+ex.where()]++
	}
	var ext []*Term
	if !extra.IsTrue() {
		ext = []*Term{extra}
	}
	v := Unknown
	for i := range ex.sols {
		ex.syncSolver(i)
		ex.sol = ex.sols[i]
		v = ex.sol.Check(ext, keep)
		if v != Unknown {
			if i > 0 {
				ex.counters["fallback-solver-"+ex.sol.name]++
			}
			return v
		}
	}
	return v
}

// ensureFeasible ends the path if lazily added assumptions made the path condition unsatisfiable.
func (ex *Exec) ensureFeasible() {
	if !ex.pcDirty {
		return
	}
	ex.pcDirty = false
	switch ex.check(ex.ts.True, false) {
	case Unsat:
		panic(pathEnd{kind: endInfeasible, msg: "assumptions"})
	case Unknown:
		ex.incon = append(ex.incon, "assumption feasibility unknown: "+ex.where())
	}
}

// evalModel evaluates a term under the cached model of the path condition.
func (ex *Exec) evalModel(t *Term) (uint64, bool) {
	if ex.model == nil || t.hasUF {
		return 0, false
	}
	return ex.ts.Eval(t, ex.model, ex.mcache)
}

// fetchModel reads the values of every variable the path condition mentions (after a sat
// answer with keep=true) and pops the solver scope.
func (ex *Exec) fetchModel(extra *Term) {
	seen := map[*Term]bool{}
	var vars []*Term
	var walk func(t *Term)
	walk = func(t *Term) {
		if seen[t] {
			return
		}
		seen[t] = true
		if t.op == OpVar {
			vars = append(vars, t)
		}
		for _, a := range t.args {
			walk(a)
		}
	}
	for _, c := range ex.pc {
		walk(c)
	}
	if extra != nil {
		walk(extra)
	}
	vals := ex.sol.GetValues(vars)
	ex.sol.Pop()
	m := &Model{vals: map[string]uint64{}}
	for i, v := range vars {
		m.vals[v.name] = vals[i]
	}
	ex.model, ex.mcache = m, map[*Term]uint64{}
	ex.counters["model-fetch"]++
}

func (ex *Exec) replaying() bool { return ex.dpos < len(ex.prefix) }

func (ex *Exec) pushFork(d Decision) {
	alt := make([]Decision, len(ex.trace), len(ex.trace)+1)
	copy(alt, ex.trace)
	alt = append(alt, d)
	ex.forks = append(ex.forks, alt)
}

// branch decides a symbolic boolean; forks when both sides are feasible.
func (ex *Exec) branch(c *Term) bool {
	if k, ok := ex.ts.known(c); ok {
		c = k // identical in the original run and in every replay of its prefix
	}
	if c.IsConst() {
		return c.IsTrue()
	}
	if ex.replaying() {
		d := ex.prefix[ex.dpos]
		ex.dpos++
		ex.trace = append(ex.trace, d)
		if d.Choice == 1 {
			ex.assume(c)
			return true
		}
		ex.assume(ex.ts.BNot(c))
		return false
	}
	ex.dpos++
	ex.ensureFeasible()
	if !ex.noModel && !c.hasUF {
		// model-directed: the side the cached model satisfies is feasible without a query
		if ex.model == nil {
			switch ex.check(ex.ts.True, true) {
			case Sat:
				ex.fetchModel(c)
			case Unsat:
				panic(pathEnd{kind: endInfeasible, msg: "path condition"})
			}
		}
		if v, ok := ex.evalModel(c); ok {
			side := v != 0
			other := c
			if side {
				other = ex.ts.BNot(c)
			}
			ex.counters["model-branch"]++
			vo := ex.check(other, false)
			if vo == Unknown {
				ex.incon = append(ex.incon, "branch feasibility unknown (kept): "+ex.where())
			}
			ch := 0
			if side {
				ch = 1
			}
			if vo != Unsat {
				ex.counters["fork@"+ex.where()]++
				ex.pushFork(Decision{Choice: 1 - ch, Kind: 'b'})
			}
			ex.trace = append(ex.trace, Decision{Choice: ch, Kind: 'b'})
			if side {
				ex.assume(c)
			} else {
				ex.assume(ex.ts.BNot(c))
			}
			return side
		}
	}
	vt := ex.check(c, false)
	var vf Verdict
	if vt == Unsat {
		vf = Sat // path condition is satisfiable by construction
	} else {
		vf = ex.check(ex.ts.BNot(c), false)
	}
	if vt == Unknown {
		ex.incon = append(ex.incon, "branch feasibility unknown (kept): "+ex.where())
	}
	if vf == Unknown {
		ex.incon = append(ex.incon, "branch feasibility unknown (kept): "+ex.where())
	}
	tOK, fOK := vt != Unsat, vf != Unsat
	switch {
	case tOK && fOK:
		ex.counters["fork@"+ex.where()]++
		ex.pushFork(Decision{Choice: 0, Kind: 'b'})
		ex.trace = append(ex.trace, Decision{Choice: 1, Kind: 'b'})
		ex.assume(c)
		return true
	case tOK:
		ex.trace = append(ex.trace, Decision{Choice: 1, Kind: 'b'})
		ex.assume(c) // implied, but keeps replay identical
		return true
	case fOK:
		ex.trace = append(ex.trace, Decision{Choice: 0, Kind: 'b'})
		ex.assume(ex.ts.BNot(c))
		return false
	}
	panic(pathEnd{kind: endInfeasible, msg: "both branch sides infeasible"})
}

// choose forks n ways without consulting the solver (scheduler / select choices).
func (ex *Exec) choose(n int) int {
	if n <= 1 {
		return 0
	}
	if ex.replaying() {
		d := ex.prefix[ex.dpos]
		ex.dpos++
		ex.trace = append(ex.trace, d)
		return d.Choice
	}
	ex.dpos++
	for i := n - 1; i >= 1; i-- {
		ex.pushFork(Decision{Choice: i, Kind: 'c'})
	}
	ex.trace = append(ex.trace, Decision{Choice: 0, Kind: 'c'})
	return 0
}

// concretize enumerates the feasible values of t, forking per value.
func (ex *Exec) concretize(t *Term, why string) uint64 {
	if t.IsConst() {
		return t.val
	}
	var excl []uint64
	if ex.replaying() {
		d := ex.prefix[ex.dpos]
		ex.dpos++
		if d.Kind == 'v' {
			ex.trace = append(ex.trace, d)
			ex.assume(ex.ts.Eq(t, ex.ts.Const(t.w, d.Val)))
			return d.Val
		}
		excl = d.Excl
	} else {
		ex.dpos++
	}
	for _, v := range excl {
		ex.assume(ex.ts.BNot(ex.ts.Eq(t, ex.ts.Const(t.w, v))))
	}
	v := ex.check(ex.ts.True, true)
	if v == Unsat {
		panic(pathEnd{kind: endInfeasible, msg: "no more values"})
	}
	if v == Unknown {
		ex.incon = append(ex.incon, "concretize unknown: "+ex.where())
		panic(pathEnd{kind: endUnsupported, msg: "concretize: solver unknown"})
	}
	val := ex.sol.GetValues([]*Term{t})[0]
	ex.sol.Pop()
	ex.counters["concretize/"+why]++
	// sibling: same point, this value excluded too
	nex := append(append([]uint64(nil), excl...), val)
	if len(nex) > ex.w.maxEnum {
		ex.incon = append(ex.incon, fmt.Sprintf("value enumeration cut at %d values: %s", len(nex), ex.where()))
	} else {
		ex.pushFork(Decision{Kind: 'p', Excl: nex})
	}
	ex.trace = append(ex.trace, Decision{Kind: 'v', Val: val})
	ex.assume(ex.ts.Eq(t, ex.ts.Const(t.w, val)))
	return val
}

func (ex *Exec) where() string {
	if ex.cur != nil && ex.cur.site != nil {
		return ex.posOf(ex.cur.site)
	}
	if ex.cur != nil {
		return ex.cur.fn.String()
	}
	return "?"
}

func (ex *Exec) posOf(in ssa.Instruction) string {
	if in == nil {
		return "?"
	}
	p := in.Pos()
	fn := in.Parent()
	if iff, ok := in.(*ssa.If); ok && !p.IsValid() {
		p = iff.Cond.Pos()
		if !p.IsValid() {
			if bo, ok := iff.Cond.(*ssa.BinOp); ok {
				p = bo.X.Pos()
				if !p.IsValid() {
					p = bo.Y.Pos()
				}
			}
		}
	}
	for !p.IsValid() && fn != nil {
		p = fn.Pos()
		break
	}
	if p.IsValid() {
		ps := ex.prog.Fset.Position(p)
		f := ps.Filename
		if i := strings.LastIndex(f, "/"); i >= 0 {
			f = f[i+1:]
		}
		return fmt.Sprintf("%s:%d(%s)", f, ps.Line, fn.Name())
	}
	return fn.String()
}

func (ex *Exec) stack() string {
	var sb strings.Builder
	for f := ex.cur; f != nil; f = f.caller {
		if sb.Len() > 0 {
			sb.WriteString(" <- ")
		}
		if f.site != nil {
			sb.WriteString(ex.posOf(f.site))
		} else {
			sb.WriteString(f.fn.Name())
		}
	}
	return sb.String()
}

// ---------- findings ----------

func (ex *Exec) extractModel() (map[string]uint64, map[string][]uint64) {
	var terms []*Term
	type ref struct {
		name string
		arr  bool
		i    int
	}
	var refs []ref
	for _, in := range ex.inputs {
		if in.t != nil {
			terms = append(terms, in.t)
			refs = append(refs, ref{name: in.name})
		} else {
			for i := 0; i < in.n; i++ {
				terms = append(terms, ex.ts.Select(in.arr, ex.c64(uint64(i))))
				refs = append(refs, ref{name: in.name, arr: true, i: i})
			}
		}
	}
	vals := ex.sol.GetValues(terms)
	m := map[string]uint64{}
	arrs := map[string][]uint64{}
	for k, r := range refs {
		if r.arr {
			arrs[r.name] = append(arrs[r.name], vals[k])
		} else {
			m[r.name] = vals[k]
		}
	}
	return m, arrs
}

// violation records a finding whose condition is already known to be feasible
// under the current path condition (cond == nil) or checks PC ∧ cond.
func (ex *Exec) violation(label, msg string, cond *Term) bool {
	if cond == nil {
		cond = ex.ts.True
	}
	if _, dup := ex.foundLabels.Load(label); dup {
		ex.counters["skipped-after-finding"]++
		return false
	}
	v := ex.check(cond, true)
	if v == Unsat {
		return false
	}
	if v == Unknown {
		ex.incon = append(ex.incon, "assertion unknown: "+label+" @ "+ex.where())
		return false
	}
	m, arrs := ex.extractModel()
	ex.sol.Pop()
	ex.foundLabels.Store(label, true)
	f := Finding{Label: label, Msg: msg, Site: ex.stack(), Model: m, Arrays: arrs, Harness: ex.harness, Kind: "ghost"}
	f.Prefix = append([]Decision(nil), ex.trace...)
	ex.findings = append(ex.findings, f)
	return true
}

// assertTerm: the property assertion. Reports if PC ∧ ¬c is satisfiable, then continues assuming c.
func (ex *Exec) assertTerm(label string, c *Term, kind string) {
	if c.IsTrue() {
		ex.asserted[label]++
		ex.counters["assertions-decided-by-normalisation"]++
		return
	}
	ex.counters["assertions-decided-by-solver"]++
	// a label that already produced a counterexample in this run is not re-examined:
	// one model per label is what gets replayed and reported
	if _, dup := ex.foundLabels.Load(label); dup {
		ex.counters["skipped-after-finding"]++
		return
	}
	ex.ensureFeasible()
	if ex.gmodeOn() && kind == "assert" {
		kind = "ghost" // confirmed by re-executing the recorded schedule inside gse
	}
	nc := ex.ts.BNot(c)
	v := ex.check(nc, true)
	switch v {
	case Unsat:
		ex.asserted[label]++
		return
	case Unknown:
		ex.incon = append(ex.incon, "assertion unknown: "+label+" @ "+ex.where())
		return
	}
	m, arrs := ex.extractModel()
	ex.sol.Pop()
	ex.foundLabels.Store(label, true)
	f := Finding{Label: label, Site: ex.stack(), Model: m, Arrays: arrs, Harness: ex.harness, Kind: kind}
	f.Prefix = append([]Decision(nil), ex.trace...)
	ex.findings = append(ex.findings, f)
	// continue on the side where it holds, if any
	if ex.check(c, false) == Unsat {
		panic(pathEnd{kind: endPanic, msg: "assertion " + label + " fails on the whole path"})
	}
	ex.assume(c)
}

// implicitPanic: bad is the condition under which Go would panic here.
func (ex *Exec) implicitPanic(kind string, bad *Term, site ssa.Instruction) {
	if bad.IsFalse() {
		return
	}
	label := "panic/" + kind + "@" + ex.posOf(site)
	if ex.w.panicsAreFindings {
		ex.assertTerm(label, ex.ts.BNot(bad), "panic")
	} else {
		// treat as assumption (used by harnesses that only want the non-panicking behaviour)
		if ex.check(ex.ts.BNot(bad), false) == Unsat {
			panic(pathEnd{kind: endPanic, msg: label})
		}
		ex.assume(ex.ts.BNot(bad))
	}
	if bad.IsTrue() {
		panic(pathEnd{kind: endPanic, msg: label})
	}
}

// ---------- operand evaluation ----------

func (ex *Exec) get(fr *Frame, v ssa.Value) Value {
	switch x := v.(type) {
	case *ssa.Const:
		return ex.constVal(x)
	case *ssa.Function:
		return &ClosureV{fn: x}
	case *ssa.Global:
		return Ptr{cell: ex.global(x)}
	case *ssa.Builtin:
		return x
	case *ssa.FreeVar:
		for i, fv := range fr.fn.FreeVars {
			if fv == x {
				return fr.env[i]
			}
		}
		panic("freevar not found")
	}
	fi := ex.info(fr.fn)
	i, ok := fi.slot[v]
	if !ok {
		panic(fmt.Sprintf("no slot for %s in %s", v.Name(), fr.fn))
	}
	return fr.regs[i]
}

func (ex *Exec) set(fr *Frame, v ssa.Value, val Value) {
	fr.regs[ex.info(fr.fn).slot[v]] = val
}

func (ex *Exec) global(g *ssa.Global) *Value {
	if c, ok := ex.globals[g]; ok {
		return c
	}
	c := new(Value)
	*c = ex.zero(g.Type().(*types.Pointer).Elem())
	ex.globals[g] = c
	return c
}

func (ex *Exec) constVal(c *ssa.Const) Value {
	t := c.Type()
	if c.Value == nil {
		return ex.zero(t)
	}
	if tp, ok := t.(*types.TypeParam); ok {
		_ = tp
		panic(pathEnd{kind: endUnsupported, msg: "typeparam const"})
	}
	switch u := t.Underlying().(type) {
	case *types.Basic:
		if w, _, ok := basicWidth(u); ok {
			if w == 0 {
				return ex.ts.Bool(constant.BoolVal(c.Value))
			}
			if i, ok := constant.Int64Val(constant.ToInt(c.Value)); ok {
				return ex.ts.Const(w, uint64(i))
			}
			if i, ok := constant.Uint64Val(constant.ToInt(c.Value)); ok {
				return ex.ts.Const(w, i)
			}
			panic("const int out of range")
		}
		switch u.Kind() {
		case types.String, types.UntypedString:
			return constant.StringVal(c.Value)
		case types.Float32, types.Float64, types.UntypedFloat:
			f, _ := constant.Float64Val(c.Value)
			return f
		}
	}
	panic(pathEnd{kind: endUnsupported, msg: "const of type " + t.String()})
}

// ---------- calls ----------

func (ex *Exec) callValue(fr *Frame, fv Value, args []Value, site ssa.Instruction) Value {
	switch f := fv.(type) {
	case *ClosureV:
		if f == nil {
			ex.implicitPanic("nil-func", ex.ts.True, site)
		}
		if f.native != nil {
			return f.native(ex, args)
		}
		return ex.call(fr, f.fn, args, f.env, site)
	}
	panic(pathEnd{kind: endUnsupported, msg: fmt.Sprintf("call of %T", fv)})
}

func (ex *Exec) lookupIntercept(fn *ssa.Function) interceptFn {
	if ic, ok := ex.icept[fn]; ok {
		return ic
	}
	name := fn.String()
	if o := fn.Origin(); o != nil {
		name = o.String()
	}
	ic := intercepts[name]
	if ic == nil && strings.HasPrefix(fn.Name(), "vf") && fn.Pkg == ex.pkg {
		ic = intercepts["vf:"+fn.Name()]
	}
	ex.icept[fn] = ic
	return ic
}

func (ex *Exec) call(caller *Frame, fn *ssa.Function, args []Value, env []Value, site ssa.Instruction) Value {
	if caller != nil {
		caller.site = site
	}
	if ic := ex.lookupIntercept(fn); ic != nil {
		return ic(ex, caller, args, site)
	}
	if fn.Blocks == nil {
		panic(pathEnd{kind: endUnsupported, msg: "no body for " + fn.String() + " called from " + ex.where()})
	}
	if fn.Name() == "init" && fn.Pkg != nil && fn.Pkg != ex.pkg && fn.Synthetic != "" {
		// other packages' initialisers are not run, except a few that only create error values
		if !initWhitelist[fn.Pkg.Pkg.Path()] {
			return nil
		}
	}
	ex.depth++
	if ex.depth > 200 {
		panic(pathEnd{kind: endBudget, msg: "call depth"})
	}
	if !ex.fnEntered[fn] {
		ex.fnEntered[fn] = true
	}
	fi := ex.info(fn)
	fr := &Frame{fn: fn, regs: make([]Value, fi.n), env: env, args: args, caller: caller}
	for i := range fn.Params {
		fr.regs[i] = args[i]
	}
	saved := ex.cur
	ex.cur = fr
	res := ex.run(fr)
	ex.cur = saved
	ex.depth--
	return res
}

func (ex *Exec) run(fr *Frame) Value {
	var prev *ssa.BasicBlock
	block := fr.fn.Blocks[0]
	skipPhis := false
	for {
		var next *ssa.BasicBlock
		merged := false
		for _, in := range block.Instrs {
			if skipPhis {
				if _, isPhi := in.(*ssa.Phi); isPhi {
					continue
				}
			}
			ex.steps++
			if ex.steps > ex.maxSteps {
				panic(pathEnd{kind: endBudget, msg: "step budget at " + ex.posOf(in)})
			}
			fr.site = in
			switch x := in.(type) {
			case *ssa.Phi:
				for i, p := range block.Preds {
					if p == prev {
						ex.set(fr, x, ex.get(fr, x.Edges[i]))
						break
					}
				}
			case *ssa.If:
				c := ex.get(fr, x.Cond).(*Term)
				if !c.IsConst() {
					if j := ex.tryMerge(fr, block, c); j != nil {
						next = j
						merged = true
						break
					}
				}
				if ex.branch(c) {
					next = block.Succs[0]
				} else {
					next = block.Succs[1]
				}
			case *ssa.Jump:
				next = block.Succs[0]
			case *ssa.Return:
				var res Value
				switch len(x.Results) {
				case 0:
				case 1:
					res = ex.get(fr, x.Results[0])
				default:
					tv := make(TupleV, len(x.Results))
					for i, r := range x.Results {
						tv[i] = ex.get(fr, r)
					}
					res = tv
				}
				return res
			case *ssa.RunDefers:
				ex.runDefers(fr)
			case *ssa.Panic:
				v := ex.get(fr, x.X)
				label := "panic/explicit@" + ex.posOf(x)
				msg := ""
				if iv, ok := v.(IfaceV); ok {
					if s, ok := iv.v.(string); ok {
						msg = s
					}
				}
				if ex.w.panicsAreFindings {
					ex.violation(label, msg, nil)
				}
				panic(pathEnd{kind: endPanic, msg: label + " " + msg})
			case *ssa.Store:
				ex.store(ex.get(fr, x.Addr).(Ptr), ex.get(fr, x.Val), x)
			case *ssa.Call:
				ex.set(fr, x, ex.doCall(fr, &x.Call, x))
			case *ssa.Defer:
				fv, args := ex.prepareCall(fr, &x.Call, x)
				fr.defers = append(fr.defers, func() { ex.invoke(fr, fv, args, x) })
			case *ssa.Go:
				fv, args := ex.prepareCall(fr, &x.Call, x)
				ex.spawn(fv, args, x)
			case *ssa.Send:
				ex.chanSend(ex.get(fr, x.Chan), ex.get(fr, x.X), x)
			case *ssa.MapUpdate:
				ex.mapUpdate(ex.get(fr, x.Map).(*MapObj), ex.get(fr, x.Key), ex.get(fr, x.Value), x)
			case *ssa.DebugRef:
			case ssa.Value:
				ex.set(fr, x, ex.evalInstr(fr, x))
			default:
				panic(pathEnd{kind: endUnsupported, msg: fmt.Sprintf("instruction %T", in)})
			}
		}
		if next == nil {
			panic(pathEnd{kind: endEngine, msg: "block fell through in " + fr.fn.String()})
		}
		prev, block = block, next
		skipPhis = merged
	}
}

func (ex *Exec) runDefers(fr *Frame) {
	for len(fr.defers) > 0 {
		d := fr.defers[len(fr.defers)-1]
		fr.defers = fr.defers[:len(fr.defers)-1]
		d()
	}
}

type preparedFn struct {
	closure Value
	builtin *ssa.Builtin
	method  *ssa.Function
}

func (ex *Exec) prepareCall(fr *Frame, c *ssa.CallCommon, site ssa.Instruction) (preparedFn, []Value) {
	var args []Value
	var pf preparedFn
	if c.IsInvoke() {
		recv := ex.get(fr, c.Value)
		iv, ok := recv.(IfaceV)
		if !ok || iv.t == nil {
			ex.implicitPanic("nil-iface-call", ex.ts.True, site)
		}
		m := ex.prog.LookupMethod(iv.t, c.Method.Pkg(), c.Method.Name())
		if m == nil {
			// embedded interface / promoted through pointer
			panic(pathEnd{kind: endUnsupported, msg: "method lookup failed: " + typeString(iv.t) + "." + c.Method.Name()})
		}
		pf.method = m
		args = append(args, iv.v)
	} else {
		switch f := c.Value.(type) {
		case *ssa.Builtin:
			pf.builtin = f
		case *ssa.Function:
			pf.method = f
		default:
			pf.closure = ex.get(fr, c.Value)
		}
	}
	for _, a := range c.Args {
		args = append(args, ex.get(fr, a))
	}
	return pf, args
}

func (ex *Exec) invoke(fr *Frame, pf preparedFn, args []Value, site ssa.Instruction) Value {
	switch {
	case pf.builtin != nil:
		return ex.builtin(fr, pf.builtin, args, site)
	case pf.method != nil:
		return ex.call(fr, pf.method, args, nil, site)
	default:
		return ex.callValue(fr, pf.closure, args, site)
	}
}

func (ex *Exec) doCall(fr *Frame, c *ssa.CallCommon, site ssa.Instruction) Value {
	pf, args := ex.prepareCall(fr, c, site)
	return ex.invoke(fr, pf, args, site)
}

// ---------- instructions producing values ----------

func (ex *Exec) evalInstr(fr *Frame, in ssa.Value) Value {
	switch x := in.(type) {
	case *ssa.Alloc:
		c := new(Value)
		*c = ex.zero(x.Type().(*types.Pointer).Elem())
		ex.allocs++
		return Ptr{cell: c}
	case *ssa.UnOp:
		return ex.unop(fr, x)
	case *ssa.BinOp:
		return ex.binop(x.Op, ex.get(fr, x.X), ex.get(fr, x.Y), x.X.Type(), x.Y.Type(), x)
	case *ssa.Convert:
		return ex.convert(ex.get(fr, x.X), x.X.Type(), x.Type(), x)
	case *ssa.ChangeType:
		return ex.get(fr, x.X)
	case *ssa.ChangeInterface:
		return ex.get(fr, x.X)
	case *ssa.MakeInterface:
		return IfaceV{t: x.X.Type(), v: ex.get(fr, x.X)}
	case *ssa.MakeClosure:
		env := make([]Value, len(x.Bindings))
		for i, b := range x.Bindings {
			env[i] = ex.get(fr, b)
		}
		return &ClosureV{fn: x.Fn.(*ssa.Function), env: env}
	case *ssa.MakeSlice:
		return ex.makeSlice(x.Type(), ex.get(fr, x.Len).(*Term), ex.get(fr, x.Cap).(*Term), x.Len.Type(), x)
	case *ssa.MakeMap:
		ex.allocID++
		mt := x.Type().Underlying().(*types.Map)
		return &MapObj{kt: mt.Key(), vt: mt.Elem(), id: ex.allocID}
	case *ssa.MakeChan:
		ex.allocID++
		n := ex.get(fr, x.Size).(*Term)
		if !n.IsConst() {
			panic(pathEnd{kind: endUnsupported, msg: "symbolic chan size"})
		}
		return &ChanObj{cap: int(n.val), et: x.Type().Underlying().(*types.Chan).Elem(), id: ex.allocID}
	case *ssa.FieldAddr:
		p := ex.get(fr, x.X).(Ptr)
		if p.IsNil() {
			ex.implicitPanic("nil-deref", ex.ts.True, x)
		}
		if p.cell == nil {
			p = ex.elemPtr(p.arr, p.idx)
			if p.cell == nil {
				panic(pathEnd{kind: endEngine, msg: "FieldAddr on scalar element"})
			}
		}
		sv, ok := (*p.cell).(*StructV)
		if !ok {
			panic(pathEnd{kind: endEngine, msg: fmt.Sprintf("FieldAddr on %T at %s", *p.cell, ex.posOf(x))})
		}
		return Ptr{cell: &sv.f[x.Field], owner: p.owner}
	case *ssa.Field:
		sv := ex.get(fr, x.X).(*StructV)
		return ex.copyVal(sv.f[x.Field])
	case *ssa.IndexAddr:
		return ex.indexAddr(fr, x)
	case *ssa.Index:
		switch a := ex.get(fr, x.X).(type) {
		case *ArrObj:
			idx := ex.idx64(ex.get(fr, x.Index).(*Term), x.Index.Type())
			ex.implicitPanic("index", ex.ts.BNot(ex.ts.Ult(idx, a.n)), x)
			return ex.copyVal(ex.arrRead(a, idx))
		case string:
			idx := ex.idx64(ex.get(fr, x.Index).(*Term), x.Index.Type())
			ex.implicitPanic("index", ex.ts.BNot(ex.ts.Ult(idx, ex.c64(uint64(len(a))))), x)
			i := ex.concretize(idx, "strindex")
			return ex.ts.Const(8, uint64(a[i]))
		}
		panic(pathEnd{kind: endUnsupported, msg: "Index on unexpected value"})
	case *ssa.Slice:
		return ex.sliceOp(fr, x)
	case *ssa.Lookup:
		return ex.lookup(fr, x)
	case *ssa.Extract:
		return ex.get(fr, x.Tuple).(TupleV)[x.Index]
	case *ssa.TypeAssert:
		return ex.typeAssert(fr, x)
	case *ssa.Range:
		switch m := ex.get(fr, x.X).(type) {
		case *MapObj:
			return &RangeIter{m: m}
		case string:
			return &RangeIter{s: m}
		}
		panic(pathEnd{kind: endUnsupported, msg: "range over unexpected value"})
	case *ssa.Next:
		it := ex.get(fr, x.Iter).(*RangeIter)
		if x.IsString {
			if it.pos >= len(it.s) {
				return TupleV{ex.ts.False, ex.c64(0), ex.ts.Const(32, 0)}
			}
			// bytes only (ASCII)
			r := it.s[it.pos]
			it.pos++
			return TupleV{ex.ts.True, ex.c64(uint64(it.pos - 1)), ex.ts.Const(32, uint64(r))}
		}
		if it.m != nil {
			for it.pos < len(it.m.entries) {
				e := it.m.entries[it.pos]
				it.pos++
				if !e.deleted {
					return TupleV{ex.ts.True, e.k, ex.copyVal(e.v)}
				}
			}
		}
		mt := x.Iter.(*ssa.Range).X.Type().Underlying().(*types.Map)
		return TupleV{ex.ts.False, ex.zero(mt.Key()), ex.zero(mt.Elem())}
	case *ssa.Select:
		return ex.selectOp(fr, x)
	case *ssa.SliceToArrayPointer:
		s := ex.get(fr, x.X).(SliceV)
		if s.arr == nil {
			return Ptr{}
		}
		panic(pathEnd{kind: endUnsupported, msg: "SliceToArrayPointer"})
	}
	panic(pathEnd{kind: endUnsupported, msg: fmt.Sprintf("value instruction %T at %s", in, ex.where())})
}

// idx64 converts an index of any integer type to a 64-bit term (sign- or zero-extended).
func (ex *Exec) idx64(t *Term, ty types.Type) *Term {
	if t.w == 64 {
		return t
	}
	if isSigned(ty) {
		return ex.ts.SExt(t, 64)
	}
	return ex.ts.ZExt(t, 64)
}

func (ex *Exec) indexAddr(fr *Frame, x *ssa.IndexAddr) Value {
	idx := ex.idx64(ex.get(fr, x.Index).(*Term), x.Index.Type())
	switch b := ex.get(fr, x.X).(type) {
	case SliceV:
		if b.arr == nil {
			ex.implicitPanic("index", ex.ts.True, x)
		}
		ex.implicitPanic("index", ex.ts.BNot(ex.ts.Ult(idx, b.len)), x)
		return ex.elemPtr(b.arr, ex.ts.Add(b.off, idx))
	case Ptr: // *[N]T
		if b.IsNil() {
			ex.implicitPanic("nil-deref", ex.ts.True, x)
		}
		var a *ArrObj
		if b.cell != nil {
			a = (*b.cell).(*ArrObj)
		} else {
			a = ex.arrRead(b.arr, b.idx).(*ArrObj)
		}
		ex.implicitPanic("index", ex.ts.BNot(ex.ts.Ult(idx, a.n)), x)
		return ex.elemPtr(a, idx)
	}
	panic(pathEnd{kind: endUnsupported, msg: "IndexAddr base"})
}

func (ex *Exec) makeSlice(t types.Type, ln, cp *Term, lenT types.Type, site ssa.Instruction) Value {
	ln = ex.idx64(ln, lenT)
	cp = ex.idx64(cp, lenT)
	et := t.Underlying().(*types.Slice).Elem()
	// negative or huge lengths panic in Go
	limit := ex.c64(uint64(ex.w.maxAlloc))
	if !cp.IsConst() {
		ex.implicitPanic("makeslice-len", ex.ts.Slt(cp, ex.c64(0)), site)
		// physical size: the engine's allocation bound; beyond it the run is inconclusive
		if ex.check(ex.ts.Ult(limit, cp), false) != Unsat {
			ex.incon = append(ex.incon, fmt.Sprintf("make([]T, n) with n possibly > %d at %s: larger sizes not explored", ex.w.maxAlloc, ex.posOf(site)))
			ex.assume(ex.ts.Ule(cp, limit))
		}
		// find a concrete physical bound by bisection
		lo, hi := 0, ex.w.maxAlloc
		for lo < hi {
			mid := (lo + hi) / 2
			if ex.check(ex.ts.Ult(ex.c64(uint64(mid)), cp), false) == Unsat {
				hi = mid
			} else {
				lo = mid + 1
			}
		}
		a := ex.newArr(et, lo, "make@"+ex.posOf(site))
		a.n = cp
		return SliceV{arr: a, off: ex.c64(0), len: ln, cap: cp}
	}
	if sx(cp.val, 64) < 0 || cp.val > uint64(ex.w.maxAlloc) {
		if sx(cp.val, 64) < 0 {
			ex.implicitPanic("makeslice-len", ex.ts.True, site)
		}
		panic(pathEnd{kind: endUnsupported, msg: fmt.Sprintf("make of %d elements", cp.val)})
	}
	a := ex.newArr(et, int(cp.val), "make@"+ex.posOf(site))
	return SliceV{arr: a, off: ex.c64(0), len: ln, cap: cp}
}

func (ex *Exec) sliceOp(fr *Frame, x *ssa.Slice) Value {
	base := ex.get(fr, x.X)
	opt := func(v ssa.Value) *Term {
		if v == nil {
			return nil
		}
		return ex.idx64(ex.get(fr, v).(*Term), v.Type())
	}
	lo, hi, mx := opt(x.Low), opt(x.High), opt(x.Max)
	if s, ok := base.(string); ok {
		l, h := 0, len(s)
		if lo != nil {
			l = int(ex.concretize(lo, "strslice"))
		}
		if hi != nil {
			h = int(ex.concretize(hi, "strslice"))
		}
		if l < 0 || h > len(s) || l > h {
			ex.implicitPanic("slice-bounds", ex.ts.True, x)
		}
		return s[l:h]
	}
	var arr *ArrObj
	var off, ln, cp *Term
	switch b := base.(type) {
	case SliceV:
		arr, off, ln, cp = b.arr, b.off, b.len, b.cap
		if arr == nil {
			off, ln, cp = ex.c64(0), ex.c64(0), ex.c64(0)
		}
	case Ptr:
		if b.IsNil() {
			ex.implicitPanic("nil-deref", ex.ts.True, x)
		}
		if b.cell != nil {
			arr = (*b.cell).(*ArrObj)
		} else {
			arr = ex.arrRead(b.arr, b.idx).(*ArrObj)
		}
		off, ln, cp = ex.c64(0), arr.n, arr.n
	default:
		panic(pathEnd{kind: endUnsupported, msg: "slice of unexpected value"})
	}
	if lo == nil {
		lo = ex.c64(0)
	}
	if hi == nil {
		hi = ln
	}
	if mx == nil {
		mx = cp
	} else {
		ex.implicitPanic("slice-bounds", ex.ts.BNot(ex.ts.Ule(mx, cp)), x)
	}
	// 0 <= lo <= hi <= max (unsigned comparisons catch negatives)
	ex.implicitPanic("slice-bounds", ex.ts.BNot(ex.ts.Ule(hi, mx)), x)
	ex.implicitPanic("slice-bounds", ex.ts.BNot(ex.ts.Ule(lo, hi)), x)
	if arr == nil {
		return SliceV{}
	}
	return SliceV{arr: arr, off: ex.ts.Add(off, lo), len: ex.ts.Sub(hi, lo), cap: ex.ts.Sub(mx, lo)}
}

func (ex *Exec) unop(fr *Frame, x *ssa.UnOp) Value {
	v := ex.get(fr, x.X)
	switch x.Op {
	case token.MUL:
		return ex.load(v.(Ptr), x)
	case token.NOT:
		return ex.ts.BNot(v.(*Term))
	case token.SUB:
		if f, ok := v.(float64); ok {
			return -f
		}
		return ex.ts.Neg(v.(*Term))
	case token.XOR:
		return ex.ts.Not(v.(*Term))
	case token.ARROW:
		val, ok := ex.chanRecv(v, x)
		if x.CommaOk {
			return TupleV{val, ex.ts.Bool(ok)}
		}
		return val
	}
	panic(pathEnd{kind: endUnsupported, msg: "unop " + x.Op.String()})
}

func (ex *Exec) binop(op token.Token, a, b Value, ta, tb types.Type, site ssa.Instruction) Value {
	ts := ex.ts
	switch x := a.(type) {
	case *Term:
		y, ok := b.(*Term)
		if !ok {
			break
		}
		signed := isSigned(ta)
		switch op {
		case token.ADD:
			return ts.Add(x, y)
		case token.SUB:
			return ts.Sub(x, y)
		case token.MUL:
			return ts.Mul(x, y)
		case token.QUO:
			ex.implicitPanic("div-by-zero", ts.Eq(y, ts.Const(y.w, 0)), site)
			if signed {
				return ts.SDiv(x, y)
			}
			return ts.UDiv(x, y)
		case token.REM:
			ex.implicitPanic("div-by-zero", ts.Eq(y, ts.Const(y.w, 0)), site)
			if signed {
				return ts.SRem(x, y)
			}
			return ts.URem(x, y)
		case token.AND:
			if x.w == 0 {
				return ts.BAnd(x, y)
			}
			return ts.And(x, y)
		case token.OR:
			if x.w == 0 {
				return ts.BOr(x, y)
			}
			return ts.Or(x, y)
		case token.XOR:
			return ts.Xor(x, y)
		case token.AND_NOT:
			return ts.And(x, ts.Not(y))
		case token.SHL, token.SHR:
			return ex.shift(op, x, y, signed, isSigned(tb), site)
		case token.EQL:
			return ts.Eq(x, y)
		case token.NEQ:
			return ts.BNot(ts.Eq(x, y))
		case token.LSS:
			if signed {
				return ts.Slt(x, y)
			}
			return ts.Ult(x, y)
		case token.LEQ:
			if signed {
				return ts.Sle(x, y)
			}
			return ts.Ule(x, y)
		case token.GTR:
			if signed {
				return ts.Slt(y, x)
			}
			return ts.Ult(y, x)
		case token.GEQ:
			if signed {
				return ts.Sle(y, x)
			}
			return ts.Ule(y, x)
		}
	case string:
		y := b.(string)
		switch op {
		case token.ADD:
			return x + y
		case token.EQL:
			return ts.Bool(x == y)
		case token.NEQ:
			return ts.Bool(x != y)
		case token.LSS:
			return ts.Bool(x < y)
		case token.LEQ:
			return ts.Bool(x <= y)
		case token.GTR:
			return ts.Bool(x > y)
		case token.GEQ:
			return ts.Bool(x >= y)
		}
	case float64:
		y := b.(float64)
		switch op {
		case token.ADD:
			return x + y
		case token.SUB:
			return x - y
		case token.MUL:
			return x * y
		case token.QUO:
			return x / y
		case token.EQL:
			return ts.Bool(x == y)
		case token.NEQ:
			return ts.Bool(x != y)
		case token.LSS:
			return ts.Bool(x < y)
		case token.LEQ:
			return ts.Bool(x <= y)
		case token.GTR:
			return ts.Bool(x > y)
		case token.GEQ:
			return ts.Bool(x >= y)
		}
	}
	if op == token.EQL || op == token.NEQ {
		eq := ex.valEq(a, b, site)
		if op == token.NEQ {
			return ts.BNot(eq)
		}
		return eq
	}
	panic(pathEnd{kind: endUnsupported, msg: fmt.Sprintf("binop %s on %T,%T at %s", op, a, b, ex.where())})
}

func (ex *Exec) shift(op token.Token, x, y *Term, xSigned, ySigned bool, site ssa.Instruction) Value {
	ts := ex.ts
	w := x.w
	if ySigned {
		ex.implicitPanic("negative-shift", ts.Slt(y, ts.Const(y.w, 0)), site)
	}
	// bring shift count to width w with saturation
	var cnt *Term
	var over *Term = ts.False
	switch {
	case y.w == w:
		cnt = y
	case y.w < w:
		cnt = ts.ZExt(y, w)
	default:
		over = ts.BNot(ts.Ult(y, ts.Const(y.w, uint64(w))))
		cnt = ts.Extract(y, w-1, 0)
	}
	var r *Term
	switch {
	case op == token.SHL:
		r = ts.Shl(x, cnt)
		if !over.IsFalse() {
			r = ts.Ite(over, ts.Const(w, 0), r)
		}
	case xSigned:
		r = ts.AShr(x, cnt)
		if !over.IsFalse() {
			r = ts.Ite(over, ts.AShr(x, ts.Const(w, uint64(w-1))), r)
		}
	default:
		r = ts.LShr(x, cnt)
		if !over.IsFalse() {
			r = ts.Ite(over, ts.Const(w, 0), r)
		}
	}
	return r
}

// valEq: equality for non-scalar comparable values.
func (ex *Exec) valEq(a, b Value, site ssa.Instruction) *Term {
	ts := ex.ts
	if a == nil && b == nil {
		return ts.True
	}
	switch x := a.(type) {
	case *Term:
		if y, ok := b.(*Term); ok {
			return ts.Eq(x, y)
		}
	case string:
		if y, ok := b.(string); ok {
			return ts.Bool(x == y)
		}
	case Ptr:
		y, ok := b.(Ptr)
		if !ok {
			break
		}
		if x.IsNil() || y.IsNil() {
			return ts.Bool(x.IsNil() && y.IsNil())
		}
		if x.cell != nil || y.cell != nil {
			return ts.Bool(x.cell == y.cell)
		}
		if x.arr != y.arr {
			return ts.False
		}
		return ts.Eq(x.idx, y.idx)
	case SliceV:
		y := b.(SliceV)
		// only comparison with nil is legal
		if y.arr == nil {
			return ts.Bool(x.arr == nil)
		}
		return ts.Bool(y.arr == nil && x.arr == nil)
	case *MapObj:
		y, _ := b.(*MapObj)
		return ts.Bool(x == y)
	case *ChanObj:
		y, _ := b.(*ChanObj)
		return ts.Bool(x == y)
	case *ClosureV:
		y, _ := b.(*ClosureV)
		return ts.Bool((x == nil) == (y == nil))
	case IfaceV:
		y, ok := b.(IfaceV)
		if !ok {
			break
		}
		if x.t == nil || y.t == nil {
			return ts.Bool(x.t == nil && y.t == nil)
		}
		if !types.Identical(x.t, y.t) {
			return ts.False
		}
		return ex.valEq(x.v, y.v, site)
	case *StructV:
		y := b.(*StructV)
		r := ts.True
		for i := range x.f {
			r = ts.BAnd(r, ex.valEq(x.f[i], y.f[i], site))
		}
		return r
	case *ArrObj:
		y := b.(*ArrObj)
		r := ts.True
		for i := range x.elems {
			r = ts.BAnd(r, ex.valEq(ex.arrRead(x, ex.c64(uint64(i))), ex.arrRead(y, ex.c64(uint64(i))), site))
		}
		return r
	}
	panic(pathEnd{kind: endUnsupported, msg: fmt.Sprintf("equality on %T,%T at %s", a, b, ex.where())})
}

func (ex *Exec) convert(v Value, from, to types.Type, site ssa.Instruction) Value {
	ts := ex.ts
	fu, tu := from.Underlying(), to.Underlying()
	if t, ok := v.(*Term); ok {
		if tb, ok := tu.(*types.Basic); ok {
			if w, _, ok := basicWidth(tb); ok {
				switch {
				case w == t.w:
					return t
				case w < t.w:
					return ts.Extract(t, w-1, 0)
				case isSigned(from):
					return ts.SExt(t, w)
				default:
					return ts.ZExt(t, w)
				}
			}
			switch tb.Kind() {
			case types.Float64, types.Float32:
				if t.IsConst() {
					if isSigned(from) {
						return float64(sx(t.val, t.w))
					}
					return float64(t.val)
				}
				// symbolic int -> float: keep an opaque marker; any arithmetic on it is unsupported
				return float64(0)
			case types.String:
				if t.IsConst() {
					return string(rune(t.val))
				}
			case types.UnsafePointer:
				return Ptr{}
			}
		}
	}
	if f, ok := v.(float64); ok {
		if tb, ok := tu.(*types.Basic); ok {
			if w, s, ok := basicWidth(tb); ok {
				if s {
					return ts.Const(w, uint64(int64(f)))
				}
				return ts.Const(w, uint64(f))
			}
			return f
		}
	}
	if s, ok := v.(string); ok {
		if sl, ok := tu.(*types.Slice); ok {
			a := ex.newArr(sl.Elem(), len(s), "string-conv")
			for i := 0; i < len(s); i++ {
				a.elems[i] = ts.Const(8, uint64(s[i]))
			}
			n := ex.c64(uint64(len(s)))
			return SliceV{arr: a, off: ex.c64(0), len: n, cap: n}
		}
		return s
	}
	if s, ok := v.(SliceV); ok {
		if tb, ok := tu.(*types.Basic); ok && tb.Kind() == types.String {
			if s.arr == nil {
				return ""
			}
			n := ex.concretize(s.len, "string-conv")
			off := ex.concretize(s.off, "string-conv")
			bs := make([]byte, n)
			for i := range bs {
				e := ex.arrRead(s.arr, ex.c64(off+uint64(i))).(*Term)
				bs[i] = byte(ex.concretize(e, "string-conv"))
			}
			return string(bs)
		}
		return s
	}
	if p, ok := v.(Ptr); ok {
		_ = fu
		return p
	}
	panic(pathEnd{kind: endUnsupported, msg: fmt.Sprintf("convert %s -> %s (%T)", from, to, v)})
}

func (ex *Exec) typeAssert(fr *Frame, x *ssa.TypeAssert) Value {
	iv, _ := ex.get(fr, x.X).(IfaceV)
	ok := false
	var res Value
	if iv.t != nil {
		if types.IsInterface(x.AssertedType) {
			it := x.AssertedType.Underlying().(*types.Interface)
			ok = types.Implements(iv.t, it)
			if ok {
				res = iv
			}
		} else {
			ok = types.Identical(iv.t, x.AssertedType)
			if ok {
				res = iv.v
			}
		}
	}
	if x.CommaOk {
		if !ok {
			res = ex.zero(x.AssertedType)
		}
		return TupleV{res, ex.ts.Bool(ok)}
	}
	if !ok {
		ex.implicitPanic("type-assert", ex.ts.True, x)
	}
	return res
}

// ---------- maps ----------

func (ex *Exec) keyEq(a, b Value) *Term {
	return ex.valEq(a, b, nil)
}

// mapFind returns the entry whose key equals k, deciding symbolic equalities by forking.
func (ex *Exec) mapFind(m *MapObj, k Value) *MapEntry {
	if m == nil {
		return nil
	}
	for _, e := range m.entries {
		if e.deleted {
			continue
		}
		if ex.branch(ex.keyEq(e.k, k)) {
			return e
		}
	}
	return nil
}

func (ex *Exec) mapUpdate(m *MapObj, k, v Value, site ssa.Instruction) {
	if m == nil {
		ex.implicitPanic("nil-map-write", ex.ts.True, site)
	}
	ex.noteWriteOther(m)
	ex.monitorObj(m, true, site)
	if e := ex.mapFind(m, k); e != nil {
		e.v = ex.copyVal(v)
		return
	}
	m.entries = append(m.entries, &MapEntry{k: k, v: ex.copyVal(v)})
	ex.counters["map-insert"]++
}

func (ex *Exec) mapLen(m *MapObj) int {
	n := 0
	if m != nil {
		for _, e := range m.entries {
			if !e.deleted {
				n++
			}
		}
	}
	return n
}

func (ex *Exec) lookup(fr *Frame, x *ssa.Lookup) Value {
	switch m := ex.get(fr, x.X).(type) {
	case *MapObj:
		ex.monitorObj(m, false, x)
		k := ex.get(fr, x.Index)
		e := ex.mapFind(m, k)
		var v Value
		if e != nil {
			v = ex.copyVal(e.v)
		} else {
			v = ex.zero(x.X.Type().Underlying().(*types.Map).Elem())
		}
		if x.CommaOk {
			return TupleV{v, ex.ts.Bool(e != nil)}
		}
		return v
	case string:
		idx := ex.idx64(ex.get(fr, x.Index).(*Term), x.Index.Type())
		ex.implicitPanic("index", ex.ts.BNot(ex.ts.Ult(idx, ex.c64(uint64(len(m))))), x)
		i := ex.concretize(idx, "strindex")
		return ex.ts.Const(8, uint64(m[i]))
	}
	panic(pathEnd{kind: endUnsupported, msg: "lookup on unexpected value"})
}

// ---------- builtins ----------

func (ex *Exec) sliceLen(v Value) *Term {
	switch s := v.(type) {
	case SliceV:
		if s.arr == nil {
			return ex.c64(0)
		}
		return s.len
	case string:
		return ex.c64(uint64(len(s)))
	case *MapObj:
		return ex.c64(uint64(ex.mapLen(s)))
	case *ChanObj:
		if s == nil {
			return ex.c64(0)
		}
		return ex.c64(uint64(len(s.buf)))
	case Ptr:
		if s.cell != nil {
			if a, ok := (*s.cell).(*ArrObj); ok {
				return a.n
			}
		}
	case *ArrObj:
		return s.n
	}
	panic(pathEnd{kind: endUnsupported, msg: fmt.Sprintf("len of %T", v)})
}

func (ex *Exec) builtin(fr *Frame, b *ssa.Builtin, args []Value, site ssa.Instruction) Value {
	ts := ex.ts
	switch b.Name() {
	case "len":
		return ex.sliceLen(args[0])
	case "cap":
		switch s := args[0].(type) {
		case SliceV:
			if s.arr == nil {
				return ex.c64(0)
			}
			return s.cap
		case *ChanObj:
			if s == nil {
				return ex.c64(0)
			}
			return ex.c64(uint64(s.cap))
		}
		return ex.sliceLen(args[0])
	case "min", "max":
		r := args[0]
		for _, a := range args[1:] {
			x, y := r.(*Term), a.(*Term)
			var lt *Term
			if isSigned(b.Type().(*types.Signature).Params().At(0).Type()) {
				lt = ts.Slt(y, x)
			} else {
				lt = ts.Ult(y, x)
			}
			if b.Name() == "max" {
				lt = ts.BNot(ts.BOr(lt, ts.Eq(x, y)))
				// y > x
			}
			r = ts.Ite(lt, y, x)
		}
		return r
	case "copy":
		return ex.copyBuiltin(args[0], args[1], site)
	case "append":
		return ex.appendBuiltin(args[0], args[1], b, site)
	case "clear":
		switch s := args[0].(type) {
		case SliceV:
			if s.arr == nil {
				return nil
			}
			ex.fillRange(s, func(i int) Value { return ex.zero(s.arr.et) }, site)
			return nil
		case *MapObj:
			if s != nil {
				ex.noteWriteOther(s)
				s.entries = nil
			}
			return nil
		}
	case "delete":
		m := args[0].(*MapObj)
		if m == nil {
			return nil
		}
		ex.noteWriteOther(m)
		ex.monitorObj(m, true, site)
		if e := ex.mapFind(m, args[1]); e != nil {
			e.deleted = true
		}
		return nil
	case "close":
		ex.chanClose(args[0].(*ChanObj), site)
		return nil
	case "panic":
		label := "panic/explicit@" + ex.posOf(site)
		if ex.w.panicsAreFindings {
			ex.violation(label, "", nil)
		}
		panic(pathEnd{kind: endPanic, msg: label})
	case "print", "println":
		return nil
	case "recover":
		return IfaceV{}
	case "ssa:wrapnilchk":
		return args[0]
	}
	panic(pathEnd{kind: endUnsupported, msg: "builtin " + b.Name()})
}

// physBound returns a concrete upper bound for the number of elements reachable through s.
func (ex *Exec) physBound(s SliceV) int {
	if s.arr == nil {
		return 0
	}
	n := len(s.arr.elems)
	if s.off.IsConst() {
		n -= int(s.off.val)
	}
	if s.len.IsConst() && int(s.len.val) < n {
		n = int(s.len.val)
	}
	if n < 0 {
		n = 0
	}
	return n
}

// fillRange sets s[i] = f(i) for i < len(s).
func (ex *Exec) fillRange(s SliceV, f func(i int) Value, site ssa.Instruction) {
	if !s.off.IsConst() {
		// symbolic offset: walk the absolute positions of the backing array
		for j := 0; j < len(s.arr.elems); j++ {
			jt := ex.c64(uint64(j))
			rel := ex.ts.Sub(jt, s.off)
			in := ex.ts.BAnd(ex.ts.Ule(s.off, jt), ex.ts.Ult(rel, s.len))
			if in.IsFalse() {
				continue
			}
			v, ok := f(0).(*Term)
			if !ok {
				panic(pathEnd{kind: endUnsupported, msg: "symbolic-offset fill of aggregate elements"})
			}
			old := ex.arrRead(s.arr, jt).(*Term)
			ex.arrWrite(s.arr, jt, ex.ts.Ite(in, v, old))
		}
		return
	}
	n := ex.physBound(s)
	for i := 0; i < n; i++ {
		idx := ex.ts.Add(s.off, ex.c64(uint64(i)))
		v := f(i)
		if !s.len.IsConst() {
			in := ex.ts.Ult(ex.c64(uint64(i)), s.len)
			if in.IsFalse() {
				break
			}
			if t, ok := v.(*Term); ok && !in.IsTrue() {
				old := ex.arrRead(s.arr, idx).(*Term)
				v = ex.ts.Ite(in, t, old)
			} else if !in.IsTrue() {
				panic(pathEnd{kind: endUnsupported, msg: "symbolic-length fill of aggregate elements"})
			}
		}
		ex.arrWrite(s.arr, idx, v)
	}
}

func (ex *Exec) copyBuiltin(dstV, srcV Value, site ssa.Instruction) Value {
	ts := ex.ts
	dst := dstV.(SliceV)
	var src SliceV
	switch s := srcV.(type) {
	case SliceV:
		src = s
	case string:
		src = ex.convert(s, types.Typ[types.String], types.NewSlice(types.Typ[types.Uint8]), site).(SliceV)
	}
	if dst.arr == nil || src.arr == nil {
		return ex.c64(0)
	}
	n := ts.Ite(ts.Ult(src.len, dst.len), src.len, dst.len)
	if !dst.off.IsConst() {
		if dst.arr.w < 0 {
			panic(pathEnd{kind: endUnsupported, msg: "symbolic-offset copy of aggregate elements"})
		}
		// symbolic destination offset: walk absolute destination positions
		news := make([]*Term, len(dst.arr.elems))
		for j := range news {
			jt := ex.c64(uint64(j))
			rel := ts.Sub(jt, dst.off)
			in := ts.BAnd(ts.Ule(dst.off, jt), ts.Ult(rel, n))
			if in.IsFalse() {
				continue
			}
			sv := ex.arrRead(src.arr, ts.Add(src.off, rel)).(*Term)
			news[j] = ts.Ite(in, sv, ex.arrRead(dst.arr, jt).(*Term))
		}
		for j, v := range news {
			if v != nil {
				ex.arrWrite(dst.arr, ex.c64(uint64(j)), v)
			}
		}
		ex.counters["copy-symbolic-offset"]++
		return n
	}
	bound := min(ex.physBound(dst), ex.physBound(src))
	if dst.arr.recycled || src.arr.recycled {
		ex.violation("pool/use-after-put", "copy touching a recycled pool buffer", nil)
	}
	// snapshot source values first (overlapping copies behave like memmove)
	vals := make([]Value, 0, bound)
	for i := 0; i < bound; i++ {
		if n.IsConst() && uint64(i) >= n.val {
			break
		}
		vals = append(vals, ex.copyVal(ex.arrRead(src.arr, ts.Add(src.off, ex.c64(uint64(i))))))
	}
	for i, v := range vals {
		idx := ts.Add(dst.off, ex.c64(uint64(i)))
		if !n.IsConst() {
			in := ts.Ult(ex.c64(uint64(i)), n)
			if in.IsFalse() {
				break
			}
			if !in.IsTrue() {
				t, ok := v.(*Term)
				if !ok {
					panic(pathEnd{kind: endUnsupported, msg: "symbolic-length copy of aggregate elements"})
				}
				v = ts.Ite(in, t, ex.arrRead(dst.arr, idx).(*Term))
			}
		}
		ex.arrWrite(dst.arr, idx, v)
	}
	ex.counters["copy"]++
	return n
}

func (ex *Exec) appendBuiltin(sV, addV Value, b *ssa.Builtin, site ssa.Instruction) Value {
	s := sV.(SliceV)
	var add SliceV
	switch a := addV.(type) {
	case SliceV:
		add = a
	case string:
		add = ex.convert(a, types.Typ[types.String], types.NewSlice(types.Typ[types.Uint8]), site).(SliceV)
	}
	if add.arr == nil {
		return s
	}
	an := int(ex.concretize(add.len, "append-len"))
	if an == 0 {
		return s
	}
	et := add.arr.et
	var sl, sc uint64
	if s.arr != nil {
		sl = ex.concretize(s.len, "append-len")
		sc = ex.concretize(s.cap, "append-cap")
	}
	need := sl + uint64(an)
	ex.counters["append"]++
	if s.arr != nil && need <= sc {
		for i := 0; i < an; i++ {
			v := ex.copyVal(ex.arrRead(add.arr, ex.ts.Add(add.off, ex.c64(uint64(i)))))
			ex.arrWrite(s.arr, ex.ts.Add(s.off, ex.c64(sl+uint64(i))), v)
		}
		return SliceV{arr: s.arr, off: s.off, len: ex.c64(need), cap: s.cap}
	}
	ncap := max(need, 2*sc)
	if ncap > uint64(ex.w.maxAlloc) {
		panic(pathEnd{kind: endUnsupported, msg: "append beyond allocation bound"})
	}
	na := ex.newArr(et, int(ncap), "append@"+ex.posOf(site))
	ex.counters["append-grow"]++
	for i := uint64(0); i < sl; i++ {
		v := ex.copyVal(ex.arrRead(s.arr, ex.ts.Add(s.off, ex.c64(i))))
		if na.w >= 0 {
			na.elems[i] = v
		} else {
			ex.assign(&na.elems[i], v)
		}
	}
	for i := 0; i < an; i++ {
		v := ex.copyVal(ex.arrRead(add.arr, ex.ts.Add(add.off, ex.c64(uint64(i)))))
		if na.w >= 0 {
			na.elems[sl+uint64(i)] = v
		} else {
			ex.assign(&na.elems[sl+uint64(i)], v)
		}
	}
	return SliceV{arr: na, off: ex.c64(0), len: ex.c64(need), cap: ex.c64(ncap)}
}
