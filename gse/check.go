package main

func runCheck(id, tier string, o RunOpts) int { return 2 }
func replayFile(path string) int              { return 2 }

type rsGroup struct{}
