package main

// Property checks: run the harnesses of one property, validate the translator
// on solver-chosen witnesses, replay every counterexample natively, apply the
// known-findings policy, write the evidence file, print VIOLATION lines.

import (
	"bufio"
	"crypto/sha256"
	"encoding/json"
	"fmt"
	"os"
	"os/exec"
	"path/filepath"
	"regexp"
	"sort"
	"strconv"
	"strings"
	"time"

	"golang.org/x/tools/go/ssa"
)

type Witness struct {
	Harness  string
	Model    map[string]uint64
	Arrays   map[string][]uint64
	Observes map[string]uint64
	Reached  []string
	Decision int
}

type modelFile struct {
	Harness string              `json:"harness"`
	Label   string              `json:"label"`
	Kind    string              `json:"kind"`
	Site    string              `json:"site,omitempty"`
	Msg     string              `json:"msg,omitempty"`
	Vars    map[string]uint64   `json:"vars"`
	Arrays  map[string][]uint64 `json:"arrays"`
	Tier    int                 `json:"tier"`
	Prefix  []Decision          `json:"prefix,omitempty"`
}

func verifDir() string {
	exe, _ := os.Executable()
	return filepath.Dir(filepath.Dir(exe))
}

// ---------- native runner ----------

type nativeRunner struct {
	dir    string
	bin    string
	buildS float64
	clock  bool // currentMs patched
	err    error
	log    string
}

type nativeResult struct {
	File        string            `json:"file"`
	Harness     string            `json:"harness"`
	Failures    []string          `json:"failures"`
	AssumeFails []string          `json:"assume_fails"`
	Reached     []string          `json:"reached"`
	Observes    map[string]uint64 `json:"observes"`
	Panic       string            `json:"panic"`
	Stack       string            `json:"stack"`
	Error       string            `json:"error"`
}

var currentMsRe = regexp.MustCompile(`(?m)^func currentMs\(\) uint32 \{[^\n]*\}\s*$`)

func buildNative(p *Program, harnesses []string) *nativeRunner {
	t0 := time.Now()
	nr := &nativeRunner{}
	dir, err := os.MkdirTemp("", "vfnative-")
	if err != nil {
		nr.err = err
		return nr
	}
	nr.dir = dir
	repl := map[string]string{}
	ents, _ := os.ReadDir(harnessDir())
	for _, e := range ents {
		n := e.Name()
		if strings.HasSuffix(n, ".go") {
			v := "zz_vf_" + n
			repl[filepath.Join(repoDir, v)] = filepath.Join(harnessDir(), n)
		}
	}
	// registry
	var sb strings.Builder
	sb.WriteString("package kcp\n\nvar vfRegistry = map[string]func(){\n")
	for _, h := range harnesses {
		fmt.Fprintf(&sb, "\t%q: %s,\n", h, h)
	}
	sb.WriteString("}\n")
	reg := filepath.Join(dir, "registry_test.go")
	os.WriteFile(reg, []byte(sb.String()), 0o644)
	repl[filepath.Join(repoDir, "zz_vf_registry_test.go")] = reg
	// clock-patched kcp.go
	if src, err := os.ReadFile(filepath.Join(repoDir, "kcp.go")); err == nil {
		if currentMsRe.Match(src) {
			patched := currentMsRe.ReplaceAll(src, []byte("func currentMs() uint32 { return vfNativeClock() }"))
			kp := filepath.Join(dir, "kcp_clock.go")
			os.WriteFile(kp, patched, 0o644)
			repl[filepath.Join(repoDir, "kcp.go")] = kp
			nr.clock = true
		}
	}
	ov, _ := json.Marshal(map[string]interface{}{"Replace": repl})
	ovp := filepath.Join(dir, "overlay.json")
	os.WriteFile(ovp, ov, 0o644)
	nr.bin = filepath.Join(dir, "kcp.test")
	cmd := exec.Command("go", "test", "-c", "-vet=off", "-overlay", ovp, "-o", nr.bin, ".")
	cmd.Dir = repoDir
	cmd.Env = append(os.Environ(), "GOFLAGS=-mod=mod", "GOPROXY=off", "GOTOOLCHAIN=local")
	out, err := cmd.CombinedOutput()
	nr.log = string(out)
	if err != nil {
		nr.err = fmt.Errorf("native build failed: %v\n%s", err, out)
	}
	nr.buildS = time.Since(t0).Seconds()
	return nr
}

func (nr *nativeRunner) close() {
	if nr.dir != "" {
		os.RemoveAll(nr.dir)
	}
}

func (nr *nativeRunner) run(files []string) (map[string]*nativeResult, error) {
	res := map[string]*nativeResult{}
	if nr.err != nil {
		return res, nr.err
	}
	if len(files) == 0 {
		return res, nil
	}
	list := filepath.Join(nr.dir, fmt.Sprintf("models-%d.txt", time.Now().UnixNano()))
	os.WriteFile(list, []byte(strings.Join(files, "\n")+"\n"), 0o644)
	cmd := exec.Command(nr.bin, "-test.run", "^TestVfReplay$", "-test.count=1", "-test.timeout=1800s")
	cmd.Dir = repoDir
	cmd.Env = append(os.Environ(), "VF_MODELS="+list)
	out, err := cmd.CombinedOutput()
	sc := bufio.NewScanner(strings.NewReader(string(out)))
	sc.Buffer(make([]byte, 1<<20), 1<<26)
	for sc.Scan() {
		line := sc.Text()
		if strings.HasPrefix(line, "VFRESULT ") {
			var r nativeResult
			if json.Unmarshal([]byte(line[9:]), &r) == nil {
				res[r.File] = &r
			}
		}
	}
	if err != nil && len(res) < len(files) {
		if d := os.Getenv("VF_NATIVE_LOG"); d != "" {
			os.WriteFile(d, out, 0o644)
		}
		tail := string(out)
		if len(tail) > 2000 {
			tail = tail[len(tail)-2000:]
		}
		return res, fmt.Errorf("native run: %v: %s", err, tail)
	}
	return res, nil
}

// ---------- known findings ----------

type knownFinding struct {
	kind string // known | fixed
	prop string
	key  string
	text string
}

func loadKnown() []knownFinding {
	var out []knownFinding
	b, err := os.ReadFile(filepath.Join(verifDir(), "known_findings.txt"))
	if err != nil {
		return nil
	}
	for _, line := range strings.Split(string(b), "\n") {
		line = strings.TrimSpace(line)
		if line == "" || strings.HasPrefix(line, "#") {
			continue
		}
		var kf knownFinding
		switch {
		case strings.HasPrefix(line, "known:"):
			kf.kind = "known"
			line = strings.TrimSpace(line[6:])
		case strings.HasPrefix(line, "fixed:"):
			kf.kind = "fixed"
			line = strings.TrimSpace(line[6:])
		default:
			continue
		}
		fields := strings.Fields(line)
		rest := []string{}
		for _, f := range fields {
			switch {
			case strings.HasPrefix(f, "property=") && kf.prop == "":
				kf.prop = f[9:]
			case strings.HasPrefix(f, "key=") && kf.key == "":
				kf.key = f[4:]
			default:
				rest = append(rest, f)
			}
		}
		kf.text = strings.Join(rest, " ")
		out = append(out, kf)
	}
	return out
}

// ---------- static scan of harness labels (vacuity guard) ----------

func scanLabels(fn *ssa.Function, seen map[*ssa.Function]bool, reach, asserts map[string]bool) {
	if fn == nil || seen[fn] || fn.Blocks == nil {
		return
	}
	seen[fn] = true
	for _, b := range fn.Blocks {
		for _, in := range b.Instrs {
			if mc, ok := in.(*ssa.MakeClosure); ok {
				scanLabels(mc.Fn.(*ssa.Function), seen, reach, asserts)
			}
			c, ok := in.(ssa.CallInstruction)
			if !ok {
				continue
			}
			callee := c.Common().StaticCallee()
			if callee == nil {
				continue
			}
			switch callee.Name() {
			case "vfReach":
				if k, ok := c.Common().Args[0].(*ssa.Const); ok {
					reach[constString(k)] = true
				}
			case "vfAssert", "vfLemma":
				if k, ok := c.Common().Args[0].(*ssa.Const); ok {
					asserts[constString(k)] = true
				}
			}
		}
	}
}

func constString(k *ssa.Const) string {
	s := k.Value.ExactString()
	if len(s) >= 2 && s[0] == '"' {
		var out string
		if json.Unmarshal([]byte(s), &out) == nil {
			return out
		}
	}
	return s
}

// ---------- the check ----------

type checkSpec struct {
	level       string
	assumptions []string
	stubs       []string
	bounds      map[string]string // tier -> text
	outside     string
	// also: harnesses named after another property whose scenario carries assertions of this one
	// (listed by full name without the vfH_ prefix); they run as part of this check too
	also []string
}

func sanitize(s string) string {
	r := regexp.MustCompile(`[^A-Za-z0-9_.-]+`).ReplaceAllString(s, "_")
	if len(r) > 80 {
		r = r[:80]
	}
	return r
}

func fileHash(path string) string {
	b, err := os.ReadFile(path)
	if err != nil {
		return ""
	}
	h := sha256.Sum256(b)
	return fmt.Sprintf("%x", h[:6])
}

func runCheck(id, tier string, o RunOpts) int {
	t0 := time.Now()
	vd := verifDir()
	evPath := filepath.Join(vd, "evidence", id+".json")
	os.MkdirAll(filepath.Join(vd, "evidence", "replay"), 0o755)
	os.Remove(evPath)
	fail := func(msg string) int {
		fmt.Printf("CHECK-ERROR property=%s %s\n", id, msg)
		writeEvidence(evPath, id, tier, o.seed, map[string]interface{}{
			"evaluations": 0, "distinct_nontrivial": 0, "explanation": "check could not run: " + msg,
		}, nil, time.Since(t0).Seconds(), 0)
		return 2
	}
	p, err := loadProgram()
	if err != nil {
		return fail("cannot load /repo with harness overlay: " + err.Error())
	}
	spec := checkSpecs[id]
	if spec == nil {
		return fail("no check registered for " + id)
	}
	var harnesses, all []string
	for n, m := range p.pkg.Members {
		if _, ok := m.(*ssa.Function); !ok || !strings.HasPrefix(n, "vfH_") {
			continue
		}
		all = append(all, n)
		if strings.HasPrefix(n, "vfH_"+id+"_") {
			if strings.HasSuffix(n, "_thorough") && tier != "thorough" {
				continue
			}
			harnesses = append(harnesses, n)
		}
	}
	for _, a := range spec.also {
		if p.pkg.Func("vfH_"+a) == nil {
			return fail("cross-listed harness vfH_" + a + " does not exist")
		}
		harnesses = append(harnesses, "vfH_"+a)
	}
	sort.Strings(harnesses)
	sort.Strings(all)
	if len(harnesses) == 0 {
		return fail("no harness for " + id)
	}
	// native build runs concurrently with the symbolic runs
	nrCh := make(chan *nativeRunner, 1)
	go func() { nrCh <- buildNative(p, all) }()

	o.witnesses = 2
	if tier == "thorough" {
		o.witnesses = 4
	}
	var results []*HarnessResult
	isAlso := map[string]bool{}
	for _, a := range spec.also {
		isAlso["vfH_"+a] = true
	}
	// The thorough tier is two passes per harness: (1) the quick family, explored completely —
	// this part must be conclusive; (2) the larger thorough family, explored within a wall-clock
	// budget per harness. Where pass 2 completes the thorough bounds hold; where it is cut off (or
	// a solver query times out) the evidence says so under deep_exploration and the claim for
	// that harness is the quick bound plus bug hunting beyond it. Violations found in either
	// pass are reported the same way. Cross-listed harnesses run pass 1 only.
	deepBudget := 300
	if s := os.Getenv("VF_DEEP_S"); s != "" {
		deepBudget, _ = strconv.Atoi(s)
	}
	for _, h := range harnesses {
		onlyDeep := strings.HasSuffix(h, "_thorough")
		if !onlyDeep {
			ho := o
			ho.tier = 0
			if tier == "thorough" {
				ho.maxWallS = 3600
			}
			r := runHarness(p, h, ho)
			r.Tier = 0
			results = append(results, r)
			fmt.Printf("harness %s: paths=%d decisions=%d queries=%d (unsat %d sat %d unknown %d) solver=%.1fs wall=%.1fs findings=%d inconclusive=%d\n",
				h, r.Paths, r.Decisions, r.Queries, r.QUnsat, r.QSat, r.QUnknown, r.SolverS, r.WallS, len(r.Findings), len(r.Incon))
		}
		if tier == "thorough" && !isAlso[h] {
			ho := o
			ho.tier = 1
			ho.maxWallS = deepBudget
			r := runHarness(p, h, ho)
			r.Tier, r.Deep = 1, true
			results = append(results, r)
			fmt.Printf("harness %s (deep pass, budget %ds): paths=%d queries=%d (unsat %d sat %d unknown %d) wall=%.1fs findings=%d complete=%v\n",
				h, deepBudget, r.Paths, r.Queries, r.QUnsat, r.QSat, r.QUnknown, r.WallS, len(r.Findings), !r.PathBudget && len(r.Incon) == 0)
		}
	}
	nr := <-nrCh
	defer nr.close()
	if nr.err != nil {
		fmt.Printf("NATIVE-BUILD-ERROR %v\n", nr.err)
	}

	known := loadKnown()
	violations := 0
	var problems []string // things that make the run inconclusive / broken
	var samples []interface{}
	funcs := map[string]bool{}
	totals := map[string]int{}
	var solverS float64
	assertLabels := map[string]int{}
	var knownMatched, unconfirmed []string
	tracesValidated := 0
	var witnessFiles []string
	witnessOf := map[string]*Witness{}
	findingFiles := map[string]*Finding{}
	findingHarness := map[string]*HarnessResult{}

	deepNotes := map[string]interface{}{}
	for _, r := range results {
		fn := p.pkg.Func(r.Name)
		reach, asserts := map[string]bool{}, map[string]bool{}
		scanLabels(fn, map[*ssa.Function]bool{}, reach, asserts)
		if r.Deep {
			// second pass of the thorough tier: incompleteness is recorded, not a failure of the check
			status := "complete: the thorough bounds hold for this harness"
			if r.PathBudget || len(r.Incon) > 0 || r.QUnknown > 0 {
				status = "incomplete: claim for this harness is the quick bound (pass 1, complete) plus bug hunting in the larger family"
			}
			deepNotes[r.Name] = map[string]interface{}{"status": status, "paths": r.Paths, "ends": r.Ends, "wall_s": r.WallS,
				"budget_exhausted": r.PathBudget, "solver_unknown": r.QUnknown, "inconclusive": r.Incon, "findings": len(r.Findings)}
			for _, e := range r.SolverErrs {
				problems = append(problems, r.Name+" (deep pass): solver error line: "+e)
			}
		} else {
			for l := range reach {
				if !r.Reached[l] {
					problems = append(problems, fmt.Sprintf("%s: vacuous — vfReach(%q) has no feasible path", r.Name, l))
				}
			}
			for l := range asserts {
				if r.Asserted[l] == 0 && r.FindingCnt[l] == 0 {
					problems = append(problems, fmt.Sprintf("%s: assertion %q was never evaluated", r.Name, l))
				}
			}
			if r.Ends["ok"]+r.Ends["exit"] == 0 {
				problems = append(problems, fmt.Sprintf("%s: no path ran to completion (%v)", r.Name, r.Ends))
			}
			for _, s := range r.Incon {
				problems = append(problems, r.Name+": "+s)
			}
			if r.PathBudget {
				problems = append(problems, r.Name+": path or wall-clock budget exhausted (exploration incomplete)")
			}
			for _, e := range r.SolverErrs {
				problems = append(problems, r.Name+": solver error line: "+e)
			}
		}
		for f := range r.Funcs {
			funcs[f] = true
		}
		totals["paths"] += r.Paths
		totals["decisions"] += r.Decisions
		totals["queries"] += r.Queries
		totals["unsat"] += r.QUnsat
		totals["sat"] += r.QSat
		totals["unknown"] += r.QUnknown
		totals["steps"] += r.Steps
		totals["by-norm"] += r.Counters["assertions-decided-by-normalisation"]
		totals["by-solver"] += r.Counters["assertions-decided-by-solver"]
		totals["forks"] += r.Counters["merged-regions"]
		solverS += r.SolverS
		for l, n := range r.Asserted {
			assertLabels[r.Name+"/"+l] += n
		}
		for i, w := range r.Witnesses {
			f := filepath.Join(nr.dir, fmt.Sprintf("w-%s-t%d-%d.json", r.Name, r.Tier, i))
			mf := modelFile{Harness: r.Name, Kind: "witness", Vars: w.Model, Arrays: w.Arrays, Tier: r.Tier}
			b, _ := json.Marshal(mf)
			if nr.dir != "" {
				os.WriteFile(f, b, 0o644)
				witnessFiles = append(witnessFiles, f)
				witnessOf[f] = w
			}
		}
		for i := range r.Findings {
			f := &r.Findings[i]
			path := filepath.Join(vd, "evidence", "replay", fmt.Sprintf("%s-%s-%s.json", id, strings.TrimPrefix(r.Name, "vfH_"), sanitize(f.Label)))
			mf := modelFile{Harness: r.Name, Label: f.Label, Kind: f.Kind, Site: f.Site, Msg: f.Msg, Vars: f.Model, Arrays: f.Arrays, Tier: r.Tier, Prefix: f.Prefix}
			b, _ := json.MarshalIndent(mf, "", " ")
			os.WriteFile(path, b, 0o644)
			findingFiles[path] = f
			findingHarness[path] = r
		}
		if len(samples) < 12 {
			samples = append(samples, map[string]interface{}{
				"harness": r.Name, "paths": r.Paths, "ends": r.Ends, "sample_path_condition": r.SamplePath,
				"labels_discharged": len(r.Asserted), "reach_labels": keys(r.Reached),
			})
		}
	}

	// translator validation on witnesses + replay of findings, one native process
	var nativeFiles []string
	nativeFiles = append(nativeFiles, witnessFiles...)
	var fpaths []string
	for path := range findingFiles {
		fpaths = append(fpaths, path)
	}
	sort.Strings(fpaths)
	nativeFiles = append(nativeFiles, fpaths...)
	nres, nerr := nr.run(nativeFiles)
	if nerr != nil {
		problems = append(problems, "native replay run failed: "+nerr.Error())
	}
	labelsWithFindings := map[string]map[string]bool{}
	for _, r := range results {
		for l, n := range r.FindingCnt {
			if n > 0 {
				if labelsWithFindings[r.Name] == nil {
					labelsWithFindings[r.Name] = map[string]bool{}
				}
				labelsWithFindings[r.Name][l] = true
			}
		}
	}
	for _, wf := range witnessFiles {
		w := witnessOf[wf]
		nr1 := nres[wf]
		if nr1 == nil {
			problems = append(problems, "translator validation: no native result for a witness of "+w.Harness)
			continue
		}
		bad := ""
		switch {
		case nr1.Error != "":
			bad = "error " + nr1.Error
		case nr1.Panic != "":
			bad = "native panic " + nr1.Panic
		case len(nr1.AssumeFails) > 0:
			bad = "native run violates an assumption the model satisfies: " + strings.Join(nr1.AssumeFails, "; ")
		case len(nr1.Failures) > 0:
			// a label that already produced a counterexample in this harness is not re-examined on
			// later paths (one model per label is reported): a witness path may therefore fail it
			// natively without any disagreement between the executor and the real build
			var unexpected []string
			for _, l := range nr1.Failures {
				if !labelsWithFindings[w.Harness][l] {
					unexpected = append(unexpected, l)
				}
			}
			if len(unexpected) > 0 {
				bad = "native run fails assertions gse discharged: " + strings.Join(unexpected, ", ")
			}
		}
		if bad == "" {
			rs := map[string]bool{}
			for _, l := range nr1.Reached {
				rs[l] = true
			}
			for _, l := range w.Reached {
				if !rs[l] {
					bad = "native run does not reach " + l
				}
			}
			for l, v := range w.Observes {
				if nv, ok := nr1.Observes[l]; !ok || nv != v {
					bad = fmt.Sprintf("observed value %s differs: gse %d native %d", l, v, nv)
				}
			}
		}
		if bad != "" {
			// keep the diverging witness for inspection
			if b, err := os.ReadFile(wf); err == nil {
				os.WriteFile(filepath.Join(vd, "evidence", "replay", "diverging-witness-"+w.Harness+".json"), b, 0o644)
			}
			problems = append(problems, fmt.Sprintf("translator validation failed for %s: %s", w.Harness, bad))
		} else {
			tracesValidated++
		}
	}

	var violationLines []string
	for _, path := range fpaths {
		f := findingFiles[path]
		r := findingHarness[path]
		key := strings.TrimPrefix(r.Name, "vfH_") + "/" + f.Label
		confirmed := false
		how := ""
		nr1 := nres[path]
		switch f.Kind {
		case "ghost":
			// ghost-state assertions (pool ownership, lock discipline, write sets) have no native
			// twin: the model is confirmed by concrete re-execution inside gse
			ok, msg := reexecConcrete(p, path, o)
			confirmed, how = ok, "gse concrete re-execution: "+msg
		default:
			if nr1 == nil {
				how = "no native result"
			} else if f.Kind == "panic" {
				confirmed = nr1.Panic != "" && len(nr1.AssumeFails) == 0
				how = "native panic: " + nr1.Panic
			} else {
				for _, l := range nr1.Failures {
					if l == f.Label {
						confirmed = true
					}
				}
				how = fmt.Sprintf("native failures=%v assume_fails=%v panic=%q", nr1.Failures, nr1.AssumeFails, nr1.Panic)
				if f.Kind == "assert" && !confirmed && nr1.Panic != "" {
					how += " (native run panicked before the assertion)"
				}
			}
		}
		if !confirmed {
			unconfirmed = append(unconfirmed, fmt.Sprintf("%s: model does not reproduce (%s)", key, how))
			problems = append(problems, fmt.Sprintf("counterexample for %s did not reproduce natively (%s): engine/stub error, not reported as violation", key, how))
			continue
		}
		if f.Kind == "lemma" {
			fmt.Printf("UNCONFIRMED-LEMMA property=%s label=%s harness=%s (internal-representation lemma fails from a surgically built state; no API-level witness searched) replay=%s\n", id, f.Label, r.Name, path)
			unconfirmed = append(unconfirmed, key+": lemma-level failure")
			continue
		}
		matched := false
		for _, kf := range known {
			if kf.kind == "known" && (kf.prop == id || !strings.HasPrefix(key, id+"_")) && kf.key == key {
				fmt.Printf("KNOWN-FINDING: property=%s %s [%s]\n", id, kf.text, key)
				knownMatched = append(knownMatched, key)
				matched = true
				break
			}
		}
		if matched {
			continue
		}
		violations++
		violationLines = append(violationLines, fmt.Sprintf("VIOLATION property=%s replay=%s", id, path))
		fmt.Printf("  violated: %s  %s\n  at %s\n  confirmed by %s\n", key, f.Msg, f.Site, how)
	}

	var fl []string
	for f := range funcs {
		if strings.Contains(f, "kcp-go") && !strings.Contains(f, ".vf") {
			fl = append(fl, strings.ReplaceAll(f, kcpPath, "kcp"))
		}
	}
	sort.Strings(fl)
	srcHash := map[string]string{}
	for _, f := range []string{"kcp.go", "sess.go", "fec.go", "ringbuffer.go", "crypt.go", "autotune.go", "timedsched.go", "bufferpool.go", "readloop.go", "entropy.go", "tx.go"} {
		srcHash[f] = fileHash(filepath.Join(repoDir, f))
	}
	cov := map[string]interface{}{
		"states":                        totals["paths"],
		"transitions":                   max(totals["decisions"], 1),
		"traces_validated_against_impl": tracesValidated,
		"samples":                       samples,
		"explanation": "bounded symbolic model checking: states = feasible paths of the real SSA explored to completion, transitions = branch/value/choice decisions; " +
			"every assertion is an SMT query PC ∧ ¬cond over all input values within the stated bounds",
		"harnesses":              harnesses,
		"cross_listed_harnesses": spec.also,
		"deep_exploration":       deepNotes,
		"functions_encoded":      fl,
		"source_hashes":          srcHash,
		"bounds":                 boundsText(spec, tier, deepBudget),
		"outside_the_claim":      spec.outside,
		"stubs_used":             spec.stubs,
		"queries":                map[string]int{"total": totals["queries"], "unsat": totals["unsat"], "sat": totals["sat"], "unknown": totals["unknown"]},
		"assertions_discharged":  assertLabels,
		"assertion_instances_decided_by_term_normalisation": totals["by-norm"],
		"assertion_instances_decided_by_solver_query":       totals["by-solver"],
		"merged_regions_executed":                           totals["forks"],
		"instructions_executed":                             totals["steps"],
		"solver_s":                                          solverS,
		"solvers":                                           o.solver,
		"encoding_load_s":                                   p.loadS + p.buildS,
		"native_build_s":                                    nr.buildS,
		"native_clock_patched":                              nr.clock,
		"inconclusive":                                      problems,
		"known_findings_matched":                            knownMatched,
		"unconfirmed":                                       unconfirmed,
		"witness_models_replayed":                           len(witnessFiles),
	}
	writeEvidence(evPath, id, tier, o.seed, cov, spec.assumptions, time.Since(t0).Seconds(), violations)
	for _, l := range violationLines {
		fmt.Println(l)
	}
	fmt.Printf("check %s tier=%s: harnesses=%d paths=%d queries=%d (unsat %d) validated-traces=%d violations=%d known=%d problems=%d wall=%.1fs\n",
		id, tier, len(harnesses), totals["paths"], totals["queries"], totals["unsat"], tracesValidated, violations, len(knownMatched), len(problems), time.Since(t0).Seconds())
	if violations > 0 {
		return 1
	}
	if len(problems) > 0 {
		for _, pr := range problems {
			fmt.Printf("INCONCLUSIVE property=%s %s\n", id, pr)
		}
		return 3
	}
	return 0
}

func keys(m map[string]bool) []string {
	var out []string
	for k := range m {
		out = append(out, k)
	}
	sort.Strings(out)
	return out
}

func writeEvidence(path, id, tier string, seed int64, cov map[string]interface{}, assumptions []string, wall float64, violations int) {
	if assumptions == nil {
		assumptions = []string{}
	}
	ev := map[string]interface{}{
		"property_id": id, "tier": tier, "seed": seed, "level": "model_checking",
		"coverage": cov, "assumptions": assumptions, "wall_s": wall, "violations": violations,
	}
	if _, ok := cov["states"]; !ok {
		ev["level"] = "other"
	}
	b, _ := json.MarshalIndent(ev, "", " ")
	os.WriteFile(path, b, 0o644)
}

// reexecConcrete re-runs the recorded decision prefix in gse with every input
// fixed to the model's value and reports whether the same label fails again.
func reexecConcrete(p *Program, path string, o RunOpts) (bool, string) {
	b, err := os.ReadFile(path)
	if err != nil {
		return false, err.Error()
	}
	var mf modelFile
	if err := json.Unmarshal(b, &mf); err != nil {
		return false, err.Error()
	}
	o.prefix = mf.Prefix
	if o.prefix == nil {
		o.prefix = []Decision{}
	}
	o.fixed = &mf
	o.witnesses = 0
	o.tier = mf.Tier // the tier the finding was produced at (cross-listed harnesses run at quick bounds)
	r := runHarness(p, mf.Harness, o)
	for _, f := range r.Findings {
		if f.Label == mf.Label {
			return true, "same label fails with all inputs fixed to the model"
		}
	}
	return false, fmt.Sprintf("label %s not reproduced; ends=%v findings=%d", mf.Label, r.Ends, len(r.Findings))
}

func replayFile(path string) int {
	p, err := loadProgram()
	if err != nil {
		fmt.Println(err)
		return 2
	}
	b, err := os.ReadFile(path)
	if err != nil {
		fmt.Println(err)
		return 2
	}
	var mf modelFile
	if err := json.Unmarshal(b, &mf); err != nil {
		fmt.Println(err)
		return 2
	}
	var all []string
	for n, m := range p.pkg.Members {
		if _, ok := m.(*ssa.Function); ok && strings.HasPrefix(n, "vfH_") {
			all = append(all, n)
		}
	}
	sort.Strings(all)
	fmt.Printf("replay %s: harness=%s label=%s kind=%s\n", path, mf.Harness, mf.Label, mf.Kind)
	if mf.Kind == "ghost" {
		ok, msg := reexecConcrete(p, path, defaultOpts())
		fmt.Printf("gse concrete re-execution: reproduced=%v (%s)\n", ok, msg)
		if ok {
			return 1
		}
		return 0
	}
	nr := buildNative(p, all)
	defer nr.close()
	res, err := nr.run([]string{path})
	if err != nil {
		fmt.Println(err)
		return 2
	}
	r := res[path]
	if r == nil {
		fmt.Println("no native result")
		return 2
	}
	jb, _ := json.MarshalIndent(r, "", " ")
	fmt.Println(string(jb))
	rep := r.Panic != "" && mf.Kind == "panic"
	for _, l := range r.Failures {
		if l == mf.Label {
			rep = true
		}
	}
	fmt.Printf("reproduced=%v\n", rep)
	if rep {
		return 1
	}
	return 0
}

func boundsText(spec *checkSpec, tier string, deepBudget int) string {
	if tier != "thorough" {
		return spec.bounds[tier]
	}
	t := spec.bounds["thorough"]
	if t == "same" || strings.HasPrefix(t, "same ") {
		t = spec.bounds["quick"] + " — thorough: " + t
	}
	return fmt.Sprintf("pass 1 (complete, conclusive): the quick bounds — %s || pass 2 (larger family, at most %d s of wall clock per harness): %s. Pass 2 is reported per harness under deep_exploration: 'complete' means the thorough bounds hold, 'incomplete' (budget hit or a solver query timed out) means the claim for that harness is the quick bound plus bug hunting beyond it; an incomplete pass 2 is never counted as a pass of the larger bounds.", spec.bounds["quick"], deepBudget, t)
}

// replayMany (development aid): native replay of every model file listed in listPath, one process.
func replayMany(listPath string) int {
	p, err := loadProgram()
	if err != nil {
		fmt.Println(err)
		return 2
	}
	b, err := os.ReadFile(listPath)
	if err != nil {
		fmt.Println(err)
		return 2
	}
	var files, all []string
	for _, l := range strings.Split(string(b), "\n") {
		if l = strings.TrimSpace(l); l != "" {
			files = append(files, l)
		}
	}
	for n, m := range p.pkg.Members {
		if _, ok := m.(*ssa.Function); ok && strings.HasPrefix(n, "vfH_") {
			all = append(all, n)
		}
	}
	sort.Strings(all)
	nr := buildNative(p, all)
	defer nr.close()
	res, err := nr.run(files)
	if err != nil {
		fmt.Println(err)
	}
	for _, f := range files {
		if r := res[f]; r != nil {
			fmt.Printf("%s failures=%v panic=%q assume_fails=%v\n", f, r.Failures, r.Panic, r.AssumeFails)
		} else {
			fmt.Printf("%s no-result\n", f)
		}
	}
	return 0
}
