package main

// Intercepted functions: harness intrinsics (vf*) and environment stubs.

import (
	"fmt"
	"go/types"
	"os"
	"strings"

	"golang.org/x/tools/go/ssa"
)

var intercepts = map[string]interceptFn{}

const kcpPath = "github.com/xtaci/kcp-go/v5"

func reg(name string, f interceptFn) { intercepts[name] = f }

func (ex *Exec) strArg(v Value) string {
	s, ok := v.(string)
	if !ok {
		panic(pathEnd{kind: endUnsupported, msg: "intrinsic needs a concrete string"})
	}
	return s
}

func (ex *Exec) input(name string, w int) *Term {
	t := ex.ts.Var(name, w)
	if !ex.inputSeen[name] {
		ex.inputSeen[name] = true
		ex.inputs = append(ex.inputs, inputVar{name: name, t: t})
		if ex.fixed != nil {
			ex.assume(ex.ts.Eq(t, ex.ts.Const(w, ex.fixed.Vars[name])))
		}
	}
	return t
}

func (ex *Exec) inputArr(name string, n int) *Term {
	t := ex.ts.ArrVar(name)
	if !ex.inputSeen[name] {
		ex.inputSeen[name] = true
		ex.inputs = append(ex.inputs, inputVar{name: name, arr: t, n: n})
		if ex.fixed != nil {
			a := ex.fixed.Arrays[name]
			for i := 0; i < n; i++ {
				var v uint64
				if i < len(a) {
					v = a[i]
				}
				ex.assume(ex.ts.Eq(ex.ts.Select(t, ex.c64(uint64(i))), ex.ts.Const(8, v)))
			}
		}
	} else {
		for i := range ex.inputs {
			if ex.inputs[i].name == name && ex.inputs[i].n < n {
				ex.inputs[i].n = n
			}
		}
	}
	return t
}

func (ex *Exec) freshName(prefix string) string {
	ex.fresh++
	return fmt.Sprintf("%s#%d", prefix, ex.fresh)
}

func (ex *Exec) concreteInt(v Value, what string) int {
	t := v.(*Term)
	if !t.IsConst() {
		return int(int64(ex.concretize(t, what)))
	}
	return int(sx(t.val, t.w))
}

func (ex *Exec) symBytes(name string, n int, ln *Term) SliceV {
	et := types.Typ[types.Uint8]
	a := ex.newArr(et, n, "vfBytes:"+name)
	a.baseArr = ex.inputArr(name, n)
	if ln == nil {
		ln = ex.c64(uint64(n))
	}
	return SliceV{arr: a, off: ex.c64(0), len: ln, cap: ex.c64(uint64(n))}
}

func init() {
	mkScalar := func(w int) interceptFn {
		return func(ex *Exec, fr *Frame, args []Value, site ssa.Instruction) Value {
			return ex.input(ex.strArg(args[0]), w)
		}
	}
	reg("vf:vfU8", mkScalar(8))
	reg("vf:vfU16", mkScalar(16))
	reg("vf:vfU32", mkScalar(32))
	reg("vf:vfU64", mkScalar(64))
	reg("vf:vfInt", mkScalar(64))
	reg("vf:vfBool", func(ex *Exec, fr *Frame, args []Value, site ssa.Instruction) Value {
		t := ex.input(ex.strArg(args[0]), 8)
		return ex.ts.BNot(ex.ts.Eq(t, ex.ts.Const(8, 0)))
	})
	reg("vf:vfIntRange", func(ex *Exec, fr *Frame, args []Value, site ssa.Instruction) Value {
		name := ex.strArg(args[0])
		first := !ex.inputSeen[name]
		t := ex.input(name, 64)
		if !first {
			return t // same variable asked again: already constrained
		}
		lo, hi := args[1].(*Term), args[2].(*Term)
		c := ex.ts.BAnd(ex.ts.Sle(lo, t), ex.ts.Sle(t, hi))
		if c.IsFalse() {
			panic(pathEnd{kind: endInfeasible, msg: "empty range"})
		}
		ex.assume(c) // feasibility is established lazily (vfReach / next query)
		ex.pcDirty = true
		return t
	})
	reg("vf:vfPick", func(ex *Exec, fr *Frame, args []Value, site ssa.Instruction) Value {
		t := ex.input(ex.strArg(args[0]), 64)
		lo, hi := args[1].(*Term), args[2].(*Term)
		if v, done := ex.picks[ex.strArg(args[0])]; done {
			return ex.c64(v) // the same choice asked again on this path
		}
		if lo.IsConst() && hi.IsConst() {
			// concrete range: fork over the values without consulting the solver
			l, h := sx(lo.val, 64), sx(hi.val, 64)
			if h < l {
				panic(pathEnd{kind: endInfeasible, msg: "empty range"})
			}
			v := uint64(l + int64(ex.choose(int(h-l+1))))
			ex.counters["concretize/vfPick"]++
			if ex.fixed != nil && ex.fixed.Vars[ex.strArg(args[0])] != v {
				panic(pathEnd{kind: endInfeasible, msg: "pick differs from the fixed model"})
			}
			ex.assume(ex.ts.Eq(t, ex.c64(v)))
			ex.picks[ex.strArg(args[0])] = v
			return ex.c64(v)
		}
		c := ex.ts.BAnd(ex.ts.Sle(lo, t), ex.ts.Sle(t, hi))
		if ex.check(c, false) == Unsat {
			panic(pathEnd{kind: endInfeasible, msg: "empty range"})
		}
		ex.assume(c)
		v := ex.concretize(t, "vfPick")
		ex.picks[ex.strArg(args[0])] = v
		return ex.c64(v)
	})
	reg("vf:vfConcrete", func(ex *Exec, fr *Frame, args []Value, site ssa.Instruction) Value {
		t := args[0].(*Term)
		return ex.ts.Const(t.w, ex.concretize(t, "vfConcrete"))
	})
	reg("vf:vfBytes", func(ex *Exec, fr *Frame, args []Value, site ssa.Instruction) Value {
		n := ex.concreteInt(args[1], "vfBytes")
		return ex.symBytes(ex.strArg(args[0]), n, nil)
	})
	reg("vf:vfBytesSym", func(ex *Exec, fr *Frame, args []Value, site ssa.Instruction) Value {
		// vfBytesSym(name, n, max): slice of symbolic length n <= max over a max-byte array
		mx := ex.concreteInt(args[2], "vfBytesSym")
		n := args[1].(*Term)
		c := ex.ts.Ule(n, ex.c64(uint64(mx)))
		if ex.check(c, false) == Unsat {
			panic(pathEnd{kind: endInfeasible, msg: "vfBytesSym length"})
		}
		ex.assume(c)
		return ex.symBytes(ex.strArg(args[0]), mx, n)
	})
	reg("vf:vfAssume", func(ex *Exec, fr *Frame, args []Value, site ssa.Instruction) Value {
		c := args[0].(*Term)
		if c.IsTrue() {
			return nil
		}
		if c.IsFalse() {
			panic(pathEnd{kind: endInfeasible, msg: "assumption"})
		}
		// lazy: feasibility of the path condition is established at the next vfReach / assertion / path end
		ex.assume(c)
		ex.pcDirty = true
		return nil
	})
	reg("vf:vfAssert", func(ex *Exec, fr *Frame, args []Value, site ssa.Instruction) Value {
		ex.assertTerm(ex.strArg(args[0]), args[1].(*Term), "assert")
		return nil
	})
	reg("vf:vfLemma", func(ex *Exec, fr *Frame, args []Value, site ssa.Instruction) Value {
		ex.assertTerm(ex.strArg(args[0]), args[1].(*Term), "lemma")
		return nil
	})
	reg("vf:vfReach", func(ex *Exec, fr *Frame, args []Value, site ssa.Instruction) Value {
		ex.ensureFeasible()
		ex.reached[ex.strArg(args[0])] = true
		return nil
	})
	reg("vf:vfStop", func(ex *Exec, fr *Frame, args []Value, site ssa.Instruction) Value {
		panic(pathEnd{kind: endExit})
	})
	reg("vf:vfName", func(ex *Exec, fr *Frame, args []Value, site ssa.Instruction) Value {
		return fmt.Sprintf("%s%d", ex.strArg(args[0]), ex.concreteInt(args[1], "vfName"))
	})
	reg("vf:vfSetClock", func(ex *Exec, fr *Frame, args []Value, site ssa.Instruction) Value {
		ex.clockBase = args[0].(*Term)
		ex.clockReads = 0
		return nil
	})
	reg("vf:vfClockSlack", func(ex *Exec, fr *Frame, args []Value, site ssa.Instruction) Value {
		ex.clockSlack = uint64(ex.concreteInt(args[0], "slack"))
		return nil
	})
	// vfStepBudget(n): raises the per-path instruction budget for harnesses that run long concrete loops
	reg("vf:vfStepBudget", func(ex *Exec, fr *Frame, args []Value, site ssa.Instruction) Value {
		if n := int(ex.concreteInt(args[0], "step-budget")); n > ex.maxSteps {
			ex.maxSteps = n
		}
		return nil
	})
	reg("vf:vfPanicsOff", func(ex *Exec, fr *Frame, args []Value, site ssa.Instruction) Value {
		ex.w.panicsAreFindings = false
		return nil
	})
	reg("vf:vfObserve", func(ex *Exec, fr *Frame, args []Value, site ssa.Instruction) Value {
		t := args[1].(*Term)
		lab := ex.strArg(args[0])
		if _, dup := ex.obsTerms[lab]; !dup {
			ex.obsTerms[lab] = t
			ex.obsOrder = append(ex.obsOrder, lab)
		}
		return nil
	})
	reg("vf:vfIsSymbolic", func(ex *Exec, fr *Frame, args []Value, site ssa.Instruction) Value {
		return ex.ts.True
	})
	reg("vf:vfJournalStart", func(ex *Exec, fr *Frame, args []Value, site ssa.Instruction) Value {
		ex.journal = true
		ex.wCells = map[*Value]bool{}
		ex.wArrs = map[*ArrObj]bool{}
		ex.wOther = map[interface{}]bool{}
		return nil
	})
	reg("vf:vfJournalStop", func(ex *Exec, fr *Frame, args []Value, site ssa.Instruction) Value {
		ex.journal = false
		return nil
	})
	// vfWritten(root any, skip ...any) bool
	reg("vf:vfWritten", func(ex *Exec, fr *Frame, args []Value, site ssa.Instruction) Value {
		skip := map[interface{}]bool{}
		if sl, ok := args[1].(SliceV); ok && sl.arr != nil {
			n := int(sl.len.val)
			for i := 0; i < n; i++ {
				iv := ex.arrRead(sl.arr, ex.c64(sl.off.val+uint64(i))).(IfaceV)
				ex.markSkip(iv.v, skip)
			}
		}
		root := args[0].(IfaceV).v
		w, why := ex.reachWritten(root, map[interface{}]bool{}, skip)
		if w {
			ex.observes = append(ex.observes, "written: "+why)
		}
		return ex.ts.Bool(w)
	})
	reg("vf:vfPoolLive", func(ex *Exec, fr *Frame, args []Value, site ssa.Instruction) Value {
		return ex.c64(uint64(ex.pool.live))
	})
	reg("vf:vfPoolGets", func(ex *Exec, fr *Frame, args []Value, site ssa.Instruction) Value {
		return ex.c64(uint64(ex.pool.gets))
	})
	reg("vf:vfCounter", func(ex *Exec, fr *Frame, args []Value, site ssa.Instruction) Value {
		return ex.c64(uint64(ex.counters[ex.strArg(args[0])]))
	})

	reg("vf:vfRecentMilli", func(ex *Exec, fr *Frame, args []Value, site ssa.Instruction) Value {
		t := ex.input(ex.strArg(args[0]), 64)
		ex.assume(ex.ts.Ult(t, ex.c64(1<<50)))
		return t
	})
	reg("vf:vfBeforeEncode", func(ex *Exec, fr *Frame, args []Value, site ssa.Instruction) Value { return nil })
	reg("vf:vfShow", func(ex *Exec, fr *Frame, args []Value, site ssa.Instruction) Value {
		if t, ok := args[1].(*Term); ok && os.Getenv("GSE_SHOW") != "" {
			fmt.Fprintf(os.Stderr, "SHOW %s = %s\n", ex.strArg(args[0]), ex.ts.show(t, 12))
		}
		return nil
	})
	reg("vf:vfIteLifting", func(ex *Exec, fr *Frame, args []Value, site ssa.Instruction) Value {
		ex.ts.lift = args[0].(*Term).IsTrue()
		return nil
	})
	reg("vf:vfGhost", func(ex *Exec, fr *Frame, args []Value, site ssa.Instruction) Value { return args[0] })
	reg("vf:vfIsGSE", func(ex *Exec, fr *Frame, args []Value, site ssa.Instruction) Value { return ex.ts.True })
	reg("vf:vfTier", func(ex *Exec, fr *Frame, args []Value, site ssa.Instruction) Value {
		return ex.c64(uint64(ex.w.tier))
	})
	reg("vf:vfAnd", func(ex *Exec, fr *Frame, args []Value, site ssa.Instruction) Value {
		return ex.ts.BAnd(args[0].(*Term), args[1].(*Term))
	})
	reg("vf:vfOr", func(ex *Exec, fr *Frame, args []Value, site ssa.Instruction) Value {
		return ex.ts.BOr(args[0].(*Term), args[1].(*Term))
	})
	reg("vf:vfImplies", func(ex *Exec, fr *Frame, args []Value, site ssa.Instruction) Value {
		return ex.ts.Implies(args[0].(*Term), args[1].(*Term))
	})
	ite := func(ex *Exec, fr *Frame, args []Value, site ssa.Instruction) Value {
		return ex.ts.Ite(args[0].(*Term), args[1].(*Term), args[2].(*Term))
	}
	reg("vf:vfIte", ite)
	reg("vf:vfIteInt", ite)
	reg("vf:vfIteU32", ite)
	reg("vf:vfIteU8", ite)

	// ---- clock ----
	reg(kcpPath+".currentMs", func(ex *Exec, fr *Frame, args []Value, site ssa.Instruction) Value {
		if ex.clockBase == nil {
			ex.clockBase = ex.input("clock0", 32)
		}
		ex.clockReads++
		if ex.clockSlack == 0 {
			return ex.clockBase
		}
		d := ex.input(fmt.Sprintf("clkd%d", ex.clockReads), 32)
		ex.assume(ex.ts.Ule(d, ex.ts.Const(32, ex.clockSlack)))
		if ex.clockReads > 1 {
			prev := ex.ts.Var(fmt.Sprintf("clkd%d", ex.clockReads-1), 32)
			ex.assume(ex.ts.Ule(prev, d))
		}
		return ex.ts.Add(ex.clockBase, d)
	})

	// ---- sync ----
	lockOf := func(ex *Exec, v Value) (*Value, *lockState) {
		p := v.(Ptr)
		if p.cell == nil {
			panic(pathEnd{kind: endUnsupported, msg: "mutex in array element"})
		}
		ls := ex.locks[p.cell]
		if ls == nil {
			ls = &lockState{}
			ex.locks[p.cell] = ls
		}
		return p.cell, ls
	}
	reg("(*sync.Mutex).Lock", func(ex *Exec, fr *Frame, args []Value, site ssa.Instruction) Value {
		_, ls := lockOf(ex, args[0])
		if ex.gmodeOn() {
			ex.yield("lock")
			for ls.held {
				ex.block("mutex@"+ex.posOf(site), func() bool { return !ls.held })
			}
			ls.held = true
			ls.owner = ex.sched.cur.id
			return nil
		}
		if ls.held {
			ex.violation("deadlock/self-lock@"+ex.posOf(site), "Lock of a mutex already held on this path", nil)
			panic(pathEnd{kind: endBlocked, msg: "self deadlock"})
		}
		ls.held = true
		return nil
	})
	reg("(*sync.Mutex).TryLock", func(ex *Exec, fr *Frame, args []Value, site ssa.Instruction) Value {
		_, ls := lockOf(ex, args[0])
		if ls.held {
			return ex.ts.False
		}
		ls.held = true
		return ex.ts.True
	})
	reg("(*sync.Mutex).Unlock", func(ex *Exec, fr *Frame, args []Value, site ssa.Instruction) Value {
		_, ls := lockOf(ex, args[0])
		if !ls.held {
			ex.violation("panic/unlock-of-unlocked@"+ex.posOf(site), "", nil)
			panic(pathEnd{kind: endPanic, msg: "unlock of unlocked mutex"})
		}
		ls.held = false
		if ex.gmodeOn() {
			ex.yield("unlock")
		}
		return nil
	})
	reg("(*sync.RWMutex).Lock", intercepts["(*sync.Mutex).Lock"])
	reg("(*sync.RWMutex).Unlock", intercepts["(*sync.Mutex).Unlock"])
	reg("(*sync.RWMutex).RLock", func(ex *Exec, fr *Frame, args []Value, site ssa.Instruction) Value {
		_, ls := lockOf(ex, args[0])
		if ex.gmodeOn() {
			ex.yield("rlock")
			for ls.held {
				ex.block("rwmutex@"+ex.posOf(site), func() bool { return !ls.held })
			}
			ls.readers++
			return nil
		}
		if ls.held {
			panic(pathEnd{kind: endBlocked, msg: "RLock while write-locked"})
		}
		ls.readers++
		return nil
	})
	reg("(*sync.RWMutex).RUnlock", func(ex *Exec, fr *Frame, args []Value, site ssa.Instruction) Value {
		_, ls := lockOf(ex, args[0])
		ls.readers--
		return nil
	})
	reg("(*sync.Once).Do", func(ex *Exec, fr *Frame, args []Value, site ssa.Instruction) Value {
		p := args[0].(Ptr)
		if ex.onces[p.cell] {
			return nil
		}
		ex.onces[p.cell] = true
		ex.noteWriteCell(p.cell)
		ex.callValue(fr, args[1], nil, site)
		return nil
	})
	reg("(*sync.Pool).Get", func(ex *Exec, fr *Frame, args []Value, site ssa.Instruction) Value {
		p := args[0].(Ptr)
		sv := (*p.cell).(*StructV)
		// field "New" is the last exported field; find a closure-valued field
		var newFn Value
		for _, f := range sv.f {
			if c, ok := f.(*ClosureV); ok && c != nil {
				newFn = c
			}
		}
		if newFn == nil {
			return IfaceV{}
		}
		v := ex.callValue(fr, newFn, nil, site)
		if iv, ok := v.(IfaceV); ok {
			if s, ok := iv.v.(SliceV); ok && s.arr != nil && s.arr.w == 8 {
				// a pooled buffer comes back with arbitrary old contents
				ex.pool.gets++
				ex.pool.live++
				s.arr.pool = true
				s.arr.getSite = ex.stack()
				s.arr.label = fmt.Sprintf("pool#%d", ex.pool.gets)
				s.arr.baseArr = ex.ts.ArrVar(fmt.Sprintf("poolmem#%d", ex.pool.gets))
				for i := range s.arr.elems {
					s.arr.elems[i] = nil
				}
				ex.pool.bufs = append(ex.pool.bufs, s.arr)
			}
		}
		return v
	})
	reg("(*sync.Pool).Put", func(ex *Exec, fr *Frame, args []Value, site ssa.Instruction) Value {
		iv, _ := args[1].(IfaceV)
		if s, ok := iv.v.(SliceV); ok && s.arr != nil {
			ex.pool.puts++
			if s.arr.recycled {
				ex.violation("pool/double-put", fmt.Sprintf("buffer %s returned to the pool twice; second Put at %s", s.arr.label, ex.stack()), nil)
				return nil
			}
			if !s.arr.pool {
				ex.counters["pool-put-foreign"]++
			} else {
				ex.pool.live--
			}
			s.arr.recycled = true
		}
		return nil
	})

	// ---- atomics ----
	atomicAdd := func(ex *Exec, fr *Frame, args []Value, site ssa.Instruction) Value {
		p := args[0].(Ptr)
		old := ex.loadAtomic(p, site).(*Term)
		nv := ex.ts.Add(old, args[1].(*Term))
		ex.storeAtomic(p, nv, site)
		return nv
	}
	atomicLoad := func(ex *Exec, fr *Frame, args []Value, site ssa.Instruction) Value {
		return ex.loadAtomic(args[0].(Ptr), site)
	}
	atomicStore := func(ex *Exec, fr *Frame, args []Value, site ssa.Instruction) Value {
		ex.storeAtomic(args[0].(Ptr), args[1], site)
		return nil
	}
	atomicCAS := func(ex *Exec, fr *Frame, args []Value, site ssa.Instruction) Value {
		p := args[0].(Ptr)
		old := ex.loadAtomic(p, site).(*Term)
		if ex.branch(ex.ts.Eq(old, args[1].(*Term))) {
			ex.storeAtomic(p, args[2], site)
			return ex.ts.True
		}
		return ex.ts.False
	}
	for _, ty := range []string{"Uint64", "Uint32", "Int64", "Int32", "Uintptr"} {
		reg("sync/atomic.Add"+ty, atomicAdd)
		reg("sync/atomic.Load"+ty, atomicLoad)
		reg("sync/atomic.Store"+ty, atomicStore)
		reg("sync/atomic.CompareAndSwap"+ty, atomicCAS)
	}
	reg("(*sync/atomic.Value).Load", func(ex *Exec, fr *Frame, args []Value, site ssa.Instruction) Value {
		p := args[0].(Ptr)
		if v, ok := ex.avals[p.cell]; ok {
			return v
		}
		return IfaceV{}
	})
	reg("(*sync/atomic.Value).Store", func(ex *Exec, fr *Frame, args []Value, site ssa.Instruction) Value {
		p := args[0].(Ptr)
		ex.noteWriteCell(p.cell)
		ex.avals[p.cell] = args[1]
		return nil
	})

	// ---- misc environment ----
	reg("github.com/pkg/errors.callers", func(ex *Exec, fr *Frame, args []Value, site ssa.Instruction) Value {
		return Ptr{}
	})
	reg("github.com/pkg/errors.WithStack", func(ex *Exec, fr *Frame, args []Value, site ssa.Instruction) Value {
		return args[0]
	})
	reg("runtime.NumCPU", func(ex *Exec, fr *Frame, args []Value, site ssa.Instruction) Value {
		return ex.c64(2)
	})
	reg(kcpPath+".NewEntropy", func(ex *Exec, fr *Frame, args []Value, site ssa.Instruction) Value {
		return IfaceV{}
	})
	reg(kcpPath+".fillRand", func(ex *Exec, fr *Frame, args []Value, site ssa.Instruction) Value {
		s := args[0].(SliceV)
		if s.arr == nil {
			return nil
		}
		n := int(ex.concretize(s.len, "fillRand"))
		if n <= 0 {
			return nil
		}
		ex.counters["fillRand"]++
		k := ex.counters["fillRand"]
		for i := 0; i < n; i++ {
			ex.arrWrite(s.arr, ex.ts.Add(s.off, ex.c64(uint64(i))), ex.ts.Var(fmt.Sprintf("rand#%d_%d", k, i), 8))
		}
		return nil
	})
	reg("time.Now", func(ex *Exec, fr *Frame, args []Value, site ssa.Instruction) Value {
		return ex.timeVal(ex.now())
	})
	reg("time.Since", func(ex *Exec, fr *Frame, args []Value, site ssa.Instruction) Value {
		return ex.ts.Sub(ex.now(), timeExt(args[0]))
	})
	reg("time.Until", func(ex *Exec, fr *Frame, args []Value, site ssa.Instruction) Value {
		return ex.ts.Sub(timeExt(args[0]), ex.now())
	})
	reg("(time.Time).Add", func(ex *Exec, fr *Frame, args []Value, site ssa.Instruction) Value {
		return ex.timeVal(ex.ts.Add(timeExt(args[0]), args[1].(*Term)))
	})
	reg("(time.Time).Sub", func(ex *Exec, fr *Frame, args []Value, site ssa.Instruction) Value {
		return ex.ts.Sub(timeExt(args[0]), timeExt(args[1]))
	})
	reg("(time.Time).After", func(ex *Exec, fr *Frame, args []Value, site ssa.Instruction) Value {
		return ex.ts.Slt(timeExt(args[1]), timeExt(args[0]))
	})
	reg("(time.Time).Before", func(ex *Exec, fr *Frame, args []Value, site ssa.Instruction) Value {
		return ex.ts.Slt(timeExt(args[0]), timeExt(args[1]))
	})
	reg("(time.Time).Equal", func(ex *Exec, fr *Frame, args []Value, site ssa.Instruction) Value {
		return ex.ts.Eq(timeExt(args[0]), timeExt(args[1]))
	})
	reg("(time.Time).IsZero", func(ex *Exec, fr *Frame, args []Value, site ssa.Instruction) Value {
		return ex.ts.Eq(timeExt(args[0]), ex.c64(0))
	})
	reg("(time.Time).UnixNano", func(ex *Exec, fr *Frame, args []Value, site ssa.Instruction) Value {
		return timeExt(args[0])
	})
	reg("(time.Time).UnixMilli", func(ex *Exec, fr *Frame, args []Value, site ssa.Instruction) Value {
		// milliseconds are kept as a separate monotone symbolic quantity
		ex.counters["unixmilli"]++
		k := ex.counters["unixmilli"]
		t := ex.input(fmt.Sprintf("unixms%d", k), 64)
		ex.assume(ex.ts.Ult(t, ex.c64(1<<50)))
		if k > 1 {
			ex.assume(ex.ts.Ule(ex.ts.Var(fmt.Sprintf("unixms%d", k-1), 64), t))
		}
		return t
	})
}

func (ex *Exec) markSkip(v Value, skip map[interface{}]bool) {
	switch x := v.(type) {
	case Ptr:
		if x.cell != nil {
			skip[x.cell] = true
		} else if x.arr != nil {
			skip[x.arr] = true
		}
	case SliceV:
		if x.arr != nil {
			skip[x.arr] = true
		}
	case *MapObj:
		skip[x] = true
	case *ChanObj:
		skip[x] = true
	}
}

type poolState struct {
	gets, puts, live int
	bufs             []*ArrObj
}

func (ex *Exec) loadAtomic(p Ptr, site ssa.Instruction) Value {
	if p.IsNil() {
		ex.implicitPanic("nil-deref", ex.ts.True, site)
	}
	if p.cell != nil {
		return *p.cell
	}
	return ex.arrRead(p.arr, p.idx)
}
func (ex *Exec) storeAtomic(p Ptr, v Value, site ssa.Instruction) {
	if p.IsNil() {
		ex.implicitPanic("nil-deref", ex.ts.True, site)
	}
	if p.cell != nil {
		ex.noteWriteCell(p.cell)
		*p.cell = v
		return
	}
	ex.arrWrite(p.arr, p.idx, v)
}

func (ex *Exec) now() *Term {
	if ex.gmodeOn() {
		return ex.sched.now
	}
	if ex.nowNs == nil {
		ex.nowNs = ex.input("now_ns", 64)
		ex.assume(ex.ts.Ult(ex.c64(1<<30), ex.nowNs))
		ex.assume(ex.ts.Ult(ex.nowNs, ex.c64(1<<61)))
	}
	return ex.nowNs
}

func (ex *Exec) timeVal(ext *Term) Value {
	tt := ex.prog.ImportedPackage("time").Type("Time").Type()
	sv := ex.zero(tt).(*StructV)
	sv.f[1] = ext
	return sv
}

func timeExt(v Value) *Term {
	return v.(*StructV).f[1].(*Term)
}

func hasPrefixAny(s string, ps ...string) bool {
	for _, p := range ps {
		if strings.HasPrefix(s, p) {
			return true
		}
	}
	return false
}

func (ex *Exec) concSlice(v Value, what string) (a *ArrObj, off, n int) {
	s := v.(SliceV)
	if s.arr == nil {
		return nil, 0, 0
	}
	return s.arr, int(ex.concretize(s.off, what)), int(ex.concretize(s.len, what))
}

func init() {
	// crypto/subtle.XORBytes(dst, x, y) int
	reg("crypto/subtle.XORBytes", func(ex *Exec, fr *Frame, args []Value, site ssa.Instruction) Value {
		da, doff, dn := ex.concSlice(args[0], "xorbytes")
		xa, xoff, xn := ex.concSlice(args[1], "xorbytes")
		ya, yoff, yn := ex.concSlice(args[2], "xorbytes")
		n := min(xn, yn)
		if n == 0 {
			return ex.c64(0)
		}
		if n > dn {
			ex.violation("panic/xorbytes-dst-too-short@"+ex.posOf(site), "subtle.XORBytes: dst too short", nil)
			panic(pathEnd{kind: endPanic, msg: "XORBytes dst too short"})
		}
		inexact := func(a *ArrObj, o int) bool {
			return a == da && o != doff && o < doff+n && doff < o+n
		}
		if inexact(xa, xoff) || inexact(ya, yoff) {
			ex.violation("panic/xorbytes-inexact-overlap@"+ex.posOf(site), "subtle.XORBytes: invalid overlap", nil)
			panic(pathEnd{kind: endPanic, msg: "XORBytes overlap"})
		}
		vals := make([]*Term, n)
		for i := 0; i < n; i++ {
			x := ex.arrRead(xa, ex.c64(uint64(xoff+i))).(*Term)
			y := ex.arrRead(ya, ex.c64(uint64(yoff+i))).(*Term)
			vals[i] = ex.ts.Xor(x, y)
		}
		for i := 0; i < n; i++ {
			ex.arrWrite(da, ex.c64(uint64(doff+i)), vals[i])
		}
		return ex.c64(uint64(n))
	})
	// vfBlockEnc(dst, src []byte, bs int): dst[:bs] = E(src[:bs]) for an uninterpreted block function E
	reg("vf:vfBlockEnc", func(ex *Exec, fr *Frame, args []Value, site ssa.Instruction) Value {
		bs := ex.concreteInt(args[2], "bs")
		da, doff, dn := ex.concSlice(args[0], "blockenc")
		sa, soff, sn := ex.concSlice(args[1], "blockenc")
		if sn < bs {
			ex.violation("panic/block-input-not-full-block@"+ex.posOf(site), "cipher.Block.Encrypt: input not full block", nil)
			panic(pathEnd{kind: endPanic, msg: "block input short"})
		}
		if dn < bs {
			ex.violation("panic/block-output-smaller-than-input@"+ex.posOf(site), "cipher.Block.Encrypt: output smaller than input", nil)
			panic(pathEnd{kind: endPanic, msg: "block output short"})
		}
		in := make([]*Term, bs)
		for i := 0; i < bs; i++ {
			in[i] = ex.arrRead(sa, ex.c64(uint64(soff+i))).(*Term)
		}
		for i := 0; i < bs; i++ {
			ex.arrWrite(da, ex.c64(uint64(doff+i)), ex.ts.UF(fmt.Sprintf("E%d_%d", bs, i), 8, in...))
		}
		ex.counters["block-encrypt"]++
		return nil
	})
	// salsa20.XORKeyStream(out, in, nonce, key): out[i] = in[i] ^ KS(nonce, i)
	reg("golang.org/x/crypto/salsa20.XORKeyStream", func(ex *Exec, fr *Frame, args []Value, site ssa.Instruction) Value {
		oa, ooff, on := ex.concSlice(args[0], "salsa")
		ia, ioff, in := ex.concSlice(args[1], "salsa")
		na, noff, nn := ex.concSlice(args[2], "salsa")
		if on < in {
			ex.violation("panic/salsa20-output-smaller-than-input@"+ex.posOf(site), "salsa20: output smaller than input", nil)
			panic(pathEnd{kind: endPanic, msg: "salsa out short"})
		}
		if nn != 8 && nn != 24 {
			ex.violation("panic/salsa20-nonce-size@"+ex.posOf(site), "salsa20: nonce must be 8 or 24 bytes", nil)
			panic(pathEnd{kind: endPanic, msg: "salsa nonce"})
		}
		nonce := make([]*Term, nn)
		for i := range nonce {
			nonce[i] = ex.arrRead(na, ex.c64(uint64(noff+i))).(*Term)
		}
		vals := make([]*Term, in)
		for i := 0; i < in; i++ {
			a := append(append([]*Term{}, nonce...), ex.ts.Const(16, uint64(i)))
			vals[i] = ex.ts.Xor(ex.arrRead(ia, ex.c64(uint64(ioff+i))).(*Term), ex.ts.UF("salsaKS", 8, a...))
		}
		for i := 0; i < in; i++ {
			ex.arrWrite(oa, ex.c64(uint64(ooff+i)), vals[i])
		}
		return nil
	})
}

// ---------- Reed-Solomon: abstract MDS code (DESIGN.md §2.3) ----------

type rsCodeword struct {
	d, p   int
	n      int
	shards [][]*Term
}

func (ex *Exec) sliceOfSlices(v Value) []SliceV {
	s := v.(SliceV)
	if s.arr == nil {
		return nil
	}
	n := int(ex.concretize(s.len, "rs"))
	off := int(ex.concretize(s.off, "rs"))
	out := make([]SliceV, n)
	for i := range out {
		out[i], _ = ex.arrRead(s.arr, ex.c64(uint64(off+i))).(SliceV)
	}
	return out
}

func (ex *Exec) readBytes(s SliceV) []*Term {
	if s.arr == nil {
		return nil
	}
	n := int(ex.concretize(s.len, "rs"))
	off := int(ex.concretize(s.off, "rs"))
	out := make([]*Term, n)
	for i := range out {
		out[i] = ex.arrRead(s.arr, ex.c64(uint64(off+i))).(*Term)
	}
	return out
}

func init() {
	reg("github.com/klauspost/reedsolomon.New", func(ex *Exec, fr *Frame, args []Value, site ssa.Instruction) Value {
		f := ex.pkg.Func("vfNewRS")
		if f == nil {
			panic(pathEnd{kind: endUnsupported, msg: "vfNewRS harness function missing"})
		}
		enc := ex.call(fr, f, []Value{args[0], args[1]}, nil, site)
		return TupleV{enc, IfaceV{}}
	})
	// vfRSEncodeGhost(d, p int, shards [][]byte): parity := UF per column; registers the code word
	reg("vf:vfRSEncodeGhost", func(ex *Exec, fr *Frame, args []Value, site ssa.Instruction) Value {
		d, p := ex.concreteInt(args[0], "rs"), ex.concreteInt(args[1], "rs")
		sh := ex.sliceOfSlices(args[2])
		cw := &rsCodeword{d: d, p: p}
		data := make([][]*Term, d)
		for i := 0; i < d; i++ {
			data[i] = ex.readBytes(sh[i])
		}
		cw.n = len(data[0])
		cw.shards = append(cw.shards, data...)
		for j := 0; j < p; j++ {
			par := make([]*Term, cw.n)
			off := int(ex.concretize(sh[d+j].off, "rs"))
			for c := 0; c < cw.n; c++ {
				col := make([]*Term, d)
				for i := 0; i < d; i++ {
					col[i] = data[i][c]
				}
				par[c] = ex.ts.UF(fmt.Sprintf("rsP%d_%d_%d", d, p, j), 8, col...)
				ex.arrWrite(sh[d+j].arr, ex.c64(uint64(off+c)), par[c])
			}
			cw.shards = append(cw.shards, par)
		}
		ex.rsWords = append(ex.rsWords, cw)
		ex.counters["rs-encode"]++
		return nil
	})
	// vfRSReconstructGhost(d, p int, shards [][]byte, n int): fills the missing data shards (already sized n)
	// with the originals of a registered code word iff every present shard provably equals that word's shard
	// in the same slot; otherwise with unconstrained bytes. Returns true if a code word matched.
	reg("vf:vfRSReconstructGhost", func(ex *Exec, fr *Frame, args []Value, site ssa.Instruction) Value {
		d, p := ex.concreteInt(args[0], "rs"), ex.concreteInt(args[1], "rs")
		sh := ex.sliceOfSlices(args[2])
		n := ex.concreteInt(args[3], "rs")
		presentV := ex.sliceOfSlices(args[4]) // bool per slot encoded as []byte of len 1/0? see harness: present[i] has len>0
		var match *rsCodeword
		for _, cw := range ex.rsWords {
			if cw.d != d || cw.p != p || cw.n != n {
				continue
			}
			ok := true
			for k := 0; k < d+p && ok; k++ {
				if presentV[k].arr == nil || presentV[k].len.val == 0 {
					continue
				}
				got := ex.readBytes(sh[k])
				for c := 0; c < n && ok; c++ {
					if got[c] == cw.shards[k][c] {
						continue
					}
					eq := ex.ts.Eq(got[c], cw.shards[k][c])
					if eq.IsFalse() || ex.check(ex.ts.BNot(eq), false) != Unsat {
						ok = false
					}
				}
			}
			if ok {
				match = cw
				break
			}
		}
		ex.counters["rs-reconstruct"]++
		for i := 0; i < d; i++ {
			if presentV[i].arr != nil && presentV[i].len.val != 0 {
				continue
			}
			off := int(ex.concretize(sh[i].off, "rs"))
			for c := 0; c < n; c++ {
				var v *Term
				if match != nil {
					v = match.shards[i][c]
				} else {
					v = ex.ts.Var(ex.freshName("rsgarbage"), 8)
				}
				ex.arrWrite(sh[i].arr, ex.c64(uint64(off+c)), v)
			}
		}
		if match != nil {
			ex.counters["rs-reconstruct-matched"]++
		}
		return ex.ts.Bool(match != nil)
	})
	// sort.Slice(x any, less func(i, j int) bool): insertion sort with the real less closure
	reg("sort.Slice", func(ex *Exec, fr *Frame, args []Value, site ssa.Instruction) Value {
		s, ok := args[0].(IfaceV).v.(SliceV)
		if !ok || s.arr == nil {
			return nil
		}
		n := int(ex.concretize(s.len, "sort"))
		off := int(ex.concretize(s.off, "sort"))
		less := func(i, j int) bool {
			r := ex.callValue(fr, args[1], []Value{ex.c64(uint64(i)), ex.c64(uint64(j))}, site).(*Term)
			return ex.branch(r)
		}
		swap := func(i, j int) {
			a := ex.copyVal(ex.arrRead(s.arr, ex.c64(uint64(off+i))))
			b := ex.copyVal(ex.arrRead(s.arr, ex.c64(uint64(off+j))))
			ex.arrWrite(s.arr, ex.c64(uint64(off+i)), b)
			ex.arrWrite(s.arr, ex.c64(uint64(off+j)), a)
		}
		for i := 1; i < n; i++ {
			for j := i; j > 0 && less(j, j-1); j-- {
				swap(j, j-1)
			}
		}
		return nil
	})
}

// ---------- sequential driving of library goroutines, CRC, AEAD ----------

func (ex *Exec) crcChain(bs []*Term) *Term {
	if len(bs) == 0 {
		return ex.ts.Const(32, 0) // the checksum of the empty string is 0
	}
	h := ex.ts.Const(32, 0xffffffff)
	for _, b := range bs {
		h = ex.ts.UF("crcstep", 32, h, b)
	}
	return h
}

func init() {
	// vfRunUntilBlocked(f func()): runs f (a goroutine body such as postProcess) until it
	// blocks on a channel/select with nothing ready, then returns to the harness.
	reg("vf:vfRunUntilBlocked", func(ex *Exec, fr *Frame, args []Value, site ssa.Instruction) Value {
		cur, depth := ex.cur, ex.depth
		blocked := false
		func() {
			defer func() {
				if r := recover(); r != nil {
					if pe, ok := r.(pathEnd); ok && pe.kind == endBlocked {
						blocked = true
						ex.cur, ex.depth = cur, depth
						return
					}
					panic(r)
				}
			}()
			ex.callValue(fr, args[0], nil, site)
		}()
		ex.counters["run-until-blocked"]++
		return ex.ts.Bool(blocked)
	})
	// vfCallMayBlock(f): same mechanism for an API call that may block (native twin: runs f in a
	// goroutine and reports whether it is still blocked after a grace period)
	reg("vf:vfCallMayBlock", intercepts["vf:vfRunUntilBlocked"])
	reg("hash/crc32.ChecksumIEEE", func(ex *Exec, fr *Frame, args []Value, site ssa.Instruction) Value {
		s := args[0].(SliceV)
		ex.counters["crc32"]++
		return ex.crcChain(ex.readBytes(s))
	})
	// vfAEADSeal(dst, nonce, plaintext []byte) []byte  — documented cipher.AEAD.Seal contract
	reg("vf:vfAEADSeal", func(ex *Exec, fr *Frame, args []Value, site ssa.Instruction) Value {
		dst := args[0].(SliceV)
		nonce := ex.readBytes(args[1].(SliceV))
		pt := ex.readBytes(args[2].(SliceV))
		const tagLen = 16
		var dl, dc, doff int
		if dst.arr != nil {
			dl, dc, doff = int(ex.concretize(dst.len, "aead")), int(ex.concretize(dst.cap, "aead")), int(ex.concretize(dst.off, "aead"))
		}
		total := dl + len(pt) + tagLen
		var out SliceV
		if dst.arr != nil && dc >= total {
			out = SliceV{arr: dst.arr, off: dst.off, len: ex.c64(uint64(total)), cap: dst.cap}
		} else {
			na := ex.newArr(types.Typ[types.Uint8], total, "aead-seal-realloc")
			for i := 0; i < dl; i++ {
				na.elems[i] = ex.arrRead(dst.arr, ex.c64(uint64(doff+i)))
			}
			out = SliceV{arr: na, off: ex.c64(0), len: ex.c64(uint64(total)), cap: ex.c64(uint64(total))}
			doff = 0
			ex.counters["aead-seal-realloc"]++
		}
		ct := make([]*Term, len(pt))
		for i, p := range pt {
			a := append(append([]*Term{}, nonce...), ex.ts.Const(16, uint64(i)))
			ct[i] = ex.ts.Xor(p, ex.ts.UF("aeadKS", 8, a...))
		}
		h := ex.crcChain(append(append([]*Term{}, nonce...), ct...))
		for i, c := range ct {
			ex.arrWrite(out.arr, ex.c64(uint64(doff+dl+i)), c)
		}
		for j := 0; j < tagLen; j++ {
			ex.arrWrite(out.arr, ex.c64(uint64(doff+dl+len(pt)+j)), ex.ts.UF("aeadTag", 8, h, ex.ts.Const(8, uint64(j))))
		}
		return out
	})
	// vfAEADOpen(dst, nonce, ciphertext []byte) ([]byte, bool)
	reg("vf:vfAEADOpen", func(ex *Exec, fr *Frame, args []Value, site ssa.Instruction) Value {
		dst := args[0].(SliceV)
		nonce := ex.readBytes(args[1].(SliceV))
		ctAll := ex.readBytes(args[2].(SliceV))
		const tagLen = 16
		if len(ctAll) < tagLen {
			return TupleV{SliceV{}, ex.ts.False}
		}
		n := len(ctAll) - tagLen
		ct, tag := ctAll[:n], ctAll[n:]
		h := ex.crcChain(append(append([]*Term{}, nonce...), ct...))
		ok := ex.ts.True
		for j := 0; j < tagLen; j++ {
			ok = ex.ts.BAnd(ok, ex.ts.Eq(tag[j], ex.ts.UF("aeadTag", 8, h, ex.ts.Const(8, uint64(j)))))
		}
		if !ex.branch(ok) {
			return TupleV{SliceV{}, ex.ts.False}
		}
		var dl, dc, doff int
		if dst.arr != nil {
			dl, dc, doff = int(ex.concretize(dst.len, "aead")), int(ex.concretize(dst.cap, "aead")), int(ex.concretize(dst.off, "aead"))
		}
		var out SliceV
		if dst.arr != nil && dc >= dl+n {
			out = SliceV{arr: dst.arr, off: dst.off, len: ex.c64(uint64(dl + n)), cap: dst.cap}
		} else {
			na := ex.newArr(types.Typ[types.Uint8], dl+n, "aead-open-realloc")
			for i := 0; i < dl; i++ {
				na.elems[i] = ex.arrRead(dst.arr, ex.c64(uint64(doff+i)))
			}
			out = SliceV{arr: na, off: ex.c64(0), len: ex.c64(uint64(dl + n)), cap: ex.c64(uint64(dl + n))}
			doff = 0
		}
		for i, c := range ct {
			a := append(append([]*Term{}, nonce...), ex.ts.Const(16, uint64(i)))
			ex.arrWrite(out.arr, ex.c64(uint64(doff+dl+i)), ex.ts.Xor(c, ex.ts.UF("aeadKS", 8, a...)))
		}
		return TupleV{out, ex.ts.True}
	})
}

func init() {
	// vfFreshlyDistinct(a, b []byte): both are outputs of different fillRand calls, byte for byte
	reg("vf:vfFreshlyDistinct", func(ex *Exec, fr *Frame, args []Value, site ssa.Instruction) Value {
		a, b := ex.readBytes(args[0].(SliceV)), ex.readBytes(args[1].(SliceV))
		if len(a) != len(b) || len(a) == 0 {
			return ex.ts.False
		}
		call := func(t *Term) string {
			if t.op != OpVar || !strings.HasPrefix(t.name, "rand#") {
				return ""
			}
			return t.name[:strings.Index(t.name, "_")]
		}
		for i := range a {
			ca, cb := call(a[i]), call(b[i])
			if ca == "" || cb == "" || ca == cb {
				return ex.ts.False
			}
		}
		return ex.ts.True
	})
	reg("internal/bytealg.Equal", func(ex *Exec, fr *Frame, args []Value, site ssa.Instruction) Value {
		a, b := ex.readBytes(args[0].(SliceV)), ex.readBytes(args[1].(SliceV))
		if len(a) != len(b) {
			return ex.ts.False
		}
		r := ex.ts.True
		for i := range a {
			r = ex.ts.BAnd(r, ex.ts.Eq(a[i], b[i]))
		}
		return r
	})
}

// ---------- lock-discipline monitor (C14) ----------

func (ex *Exec) collectGuarded(v Value, seen map[interface{}]bool, cells *[]*Value, objs *[]interface{}) {
	switch x := v.(type) {
	case Ptr:
		if x.cell != nil {
			ex.collectCell(x.cell, seen, cells, objs)
		} else if x.arr != nil {
			ex.collectArr(x.arr, seen, cells, objs)
		}
	case SliceV:
		if x.arr != nil {
			if x.arr.w >= 0 && !x.arr.pool && x.off.IsConst() && x.len.IsConst() {
				// a slice of scalars guards exactly its own index range: two working buffers carved
				// from one backing array at disjoint ranges may be guarded by different locks
				*objs = append(*objs, arrRange{x.arr, int(x.off.val), int(x.off.val + x.len.val)})
				return
			}
			ex.collectArr(x.arr, seen, cells, objs)
		}
	case *StructV:
		for i := range x.f {
			ex.collectCell(&x.f[i], seen, cells, objs)
		}
	case *ArrObj:
		ex.collectArr(x, seen, cells, objs)
	case *MapObj:
		if x == nil || seen[x] {
			return
		}
		seen[x] = true
		*objs = append(*objs, x)
		for _, e := range x.entries {
			ex.collectGuarded(e.v, seen, cells, objs)
		}
	case IfaceV:
		ex.collectGuarded(x.v, seen, cells, objs)
	}
}

func (ex *Exec) collectCell(c *Value, seen map[interface{}]bool, cells *[]*Value, objs *[]interface{}) {
	if seen[c] {
		return
	}
	seen[c] = true
	*cells = append(*cells, c)
	ex.collectGuarded(*c, seen, cells, objs)
}

func (ex *Exec) collectArr(a *ArrObj, seen map[interface{}]bool, cells *[]*Value, objs *[]interface{}) {
	if seen[a] {
		return
	}
	seen[a] = true
	if a.w >= 0 {
		// scalar arrays are guarded as whole objects (element accesses report the array)
		if !a.pool {
			*objs = append(*objs, a)
		}
		return // pooled payload bytes are handed over through channels; their ownership is C15
	}
	for i := range a.elems {
		ex.collectCell(&a.elems[i], seen, cells, objs)
	}
}

func (ex *Exec) ifaceArgs(v Value) []Value {
	sl, ok := v.(SliceV)
	if !ok || sl.arr == nil {
		return nil
	}
	n := int(sl.len.val)
	out := make([]Value, n)
	for i := 0; i < n; i++ {
		out[i] = ex.arrRead(sl.arr, ex.c64(sl.off.val+uint64(i))).(IfaceV).v
	}
	return out
}

func init() {
	guard := func(kind string) interceptFn {
		return func(ex *Exec, fr *Frame, args []Value, site ssa.Instruction) Value {
			if ex.monitor == nil {
				ex.monitor = &lockMonitor{cells: map[*Value]*guardRule{}, objs: map[interface{}]*guardRule{}, reports: map[string]bool{}}
				ex.monitorOn = false
			}
			r := &guardRule{name: ex.strArg(args[0]), kind: kind}
			rootsArg := args[1]
			if kind == "mutex" || kind == "rwmutex" {
				lp := args[1].(IfaceV).v.(Ptr)
				r.lock = lp.cell
				r.rw = kind == "rwmutex"
				rootsArg = args[2]
			}
			if kind == "mutexfield" || kind == "rwmutexfield" {
				r.rw = kind == "rwmutexfield"
				// the lock is named by (struct pointer, field name): if a change removed the field
				// the harness still compiles and every access to the guarded data is reported
				r.kind = "mutex"
				iv := args[1].(IfaceV)
				fname := ex.strArg(args[2])
				rootsArg = args[3]
				if pt, ok := iv.t.Underlying().(*types.Pointer); ok {
					if st, ok := pt.Elem().Underlying().(*types.Struct); ok {
						for i := 0; i < st.NumFields(); i++ {
							if st.Field(i).Name() == fname {
								if sp, ok := iv.v.(Ptr); ok && sp.cell != nil {
									if sv, ok := (*sp.cell).(*StructV); ok {
										r.lock = &sv.f[i]
									}
								}
							}
						}
					}
				}
				if r.lock == nil {
					r.name += "(no such lock any more)"
				}
			}
			if kind == "confined" {
				// goroutine confinement: only code running (transitively) inside the named function may touch it
				r.owner = ex.strArg(args[1])
				rootsArg = args[2]
			}
			seen := map[interface{}]bool{}
			// never descend into what a stop set names (registered before)
			for k := range ex.monitor.stop {
				seen[k] = true
			}
			var cells []*Value
			var objs []interface{}
			for _, root := range ex.ifaceArgs(rootsArg) {
				if kind == "rwmutex" || kind == "rwmutexfield" {
					// shallow: the variable and the map object it holds
					if p, ok := root.(Ptr); ok && p.cell != nil {
						cells = append(cells, p.cell)
						if m, ok := (*p.cell).(*MapObj); ok && m != nil {
							objs = append(objs, m)
						}
					}
					continue
				}
				if kind == "nowrite" || kind == "atomic" {
					// shallow: the named variable (and, for a struct, its fields), nothing behind pointers
					if p, ok := root.(Ptr); ok && p.cell != nil {
						cells = append(cells, p.cell)
						if sv, ok := (*p.cell).(*StructV); ok {
							for i := range sv.f {
								cells = append(cells, &sv.f[i])
							}
						}
					}
					continue
				}
				ex.collectGuarded(root, seen, &cells, &objs)
			}
			for _, c := range cells {
				if _, dup := ex.monitor.cells[c]; !dup {
					ex.monitor.cells[c] = r
				}
			}
			for _, o := range objs {
				if ar, ok := o.(arrRange); ok {
					if ex.monitor.ranges == nil {
						ex.monitor.ranges = map[*ArrObj][]guardedRange{}
					}
					ex.monitor.ranges[ar.a] = append(ex.monitor.ranges[ar.a], guardedRange{ar.lo, ar.hi, r})
					continue
				}
				if _, dup := ex.monitor.objs[o]; !dup {
					ex.monitor.objs[o] = r
				}
			}
			ex.counters["guarded-cells"] += len(cells)
			return nil
		}
	}
	reg("vf:vfGuard", guard("mutex"))
	reg("vf:vfGuardRW", guard("rwmutex"))
	reg("vf:vfGuardNoWrite", guard("nowrite"))
	reg("vf:vfGuardAtomic", guard("atomic"))
	reg("vf:vfGuardConfined", guard("confined"))
	reg("vf:vfGuardField", guard("mutexfield"))
	reg("vf:vfGuardFieldRW", guard("rwmutexfield"))
	reg("vf:vfGuardStop", func(ex *Exec, fr *Frame, args []Value, site ssa.Instruction) Value {
		if ex.monitor == nil {
			ex.monitor = &lockMonitor{cells: map[*Value]*guardRule{}, objs: map[interface{}]*guardRule{}, reports: map[string]bool{}}
		}
		if ex.monitor.stop == nil {
			ex.monitor.stop = map[interface{}]bool{}
		}
		for _, v := range ex.ifaceArgs(args[0]) {
			switch x := v.(type) {
			case Ptr:
				if x.cell != nil {
					ex.monitor.stop[x.cell] = true
				}
			case *MapObj:
				ex.monitor.stop[x] = true
			case SliceV:
				if x.arr != nil {
					ex.monitor.stop[x.arr] = true
				}
			}
		}
		return nil
	})
	reg("vf:vfMonitorOn", func(ex *Exec, fr *Frame, args []Value, site ssa.Instruction) Value {
		ex.monitorOn = true
		return nil
	})
	reg("vf:vfMonitorOff", func(ex *Exec, fr *Frame, args []Value, site ssa.Instruction) Value {
		ex.monitorOn = false
		return nil
	})
}

// ---------- goroutine-mode intrinsics and the timer model ----------

func (ex *Exec) timerOf(p Ptr) *vtimer {
	if t, ok := ex.vtimers[p.cell]; ok {
		return t
	}
	panic(pathEnd{kind: endUnsupported, msg: "unknown timer"})
}

func (ex *Exec) stopTimer(t *vtimer) bool {
	was := t.active
	t.active = false
	if !ex.sched.asyncTimers {
		// Go >= 1.23 channel timers: Stop/Reset discard a fired-but-unreceived value and report
		// it as "was pending"
		if len(t.c.buf) > 0 {
			t.c.buf = nil
			was = true
		}
	}
	return was
}

func init() {
	reg("vf:vfGoroutineMode", func(ex *Exec, fr *Frame, args []Value, site ssa.Instruction) Value {
		ex.startGoroutineMode(ex.concreteInt(args[0], "preempt"), args[1].(*Term).IsTrue())
		return nil
	})
	// vfQuiesce(maxAdvanceNs): run until every other goroutine is blocked or done; virtual time may
	// advance by at most maxAdvanceNs to fire timers on the way
	reg("vf:vfQuiesce", func(ex *Exec, fr *Frame, args []Value, site ssa.Instruction) Value {
		sc := ex.sched
		sc.quiesceUntil = ex.ts.Add(sc.now, args[0].(*Term))
		for {
			sc.quiesceWait = true
			ex.block("quiesce", func() bool { return false })
			// woken by the scheduler at quiescence
			if ex.branch(ex.ts.Slt(sc.now, sc.quiesceUntil)) {
				// let time pass to the horizon even if no timer is pending
				pending := false
				for _, t := range sc.timers {
					if t.active && ex.branch(ex.ts.Sle(t.when, sc.quiesceUntil)) {
						pending = true
					}
				}
				if !pending {
					sc.now = sc.quiesceUntil
					return nil
				}
				continue
			}
			return nil
		}
	})
	reg("vf:vfNowNs", func(ex *Exec, fr *Frame, args []Value, site ssa.Instruction) Value {
		return ex.now()
	})
	reg("vf:vfLiveGoroutines", func(ex *Exec, fr *Frame, args []Value, site ssa.Instruction) Value {
		n := 0
		for _, g := range ex.sched.gors {
			if !g.main && !g.done {
				n++
			}
		}
		return ex.c64(uint64(n))
	})
	// vfBlockedAt(substr): number of goroutines blocked at a site whose description contains substr
	reg("vf:vfBlockedAt", func(ex *Exec, fr *Frame, args []Value, site ssa.Instruction) Value {
		sub := ex.strArg(args[0])
		n := 0
		for _, g := range ex.sched.gors {
			if !g.main && !g.done && g.blocked && strings.Contains(g.why, sub) {
				n++
			}
		}
		return ex.c64(uint64(n))
	})
	reg("vf:vfPendingTimers", func(ex *Exec, fr *Frame, args []Value, site ssa.Instruction) Value {
		n := 0
		for _, t := range ex.sched.timers {
			if t.active {
				n++
			}
		}
		return ex.c64(uint64(n))
	})
	reg("time.NewTimer", func(ex *Exec, fr *Frame, args []Value, site ssa.Instruction) Value {
		tt := ex.prog.ImportedPackage("time").Type("Timer").Type()
		cell := new(Value)
		sv := ex.zero(tt).(*StructV)
		*cell = sv
		ex.allocID++
		ch := &ChanObj{cap: 1, et: ex.prog.ImportedPackage("time").Type("Time").Type(), id: ex.allocID}
		sv.f[0] = ch
		t := &vtimer{c: ch, id: ex.allocID}
		if ex.vtimers == nil {
			ex.vtimers = map[*Value]*vtimer{}
		}
		ex.vtimers[cell] = t
		if ex.gmodeOn() {
			t.when, t.active = ex.ts.Add(ex.sched.now, args[0].(*Term)), true
			ex.sched.timers = append(ex.sched.timers, t)
			ex.fireTimers() // a zero or negative duration is due at once
			ex.yield("newtimer")
		}
		return Ptr{cell: cell}
	})
	reg("(*time.Timer).Stop", func(ex *Exec, fr *Frame, args []Value, site ssa.Instruction) Value {
		if !ex.gmodeOn() {
			return ex.ts.True
		}
		ex.yield("timer-stop")
		return ex.ts.Bool(ex.stopTimer(ex.timerOf(args[0].(Ptr))))
	})
	reg("(*time.Timer).Reset", func(ex *Exec, fr *Frame, args []Value, site ssa.Instruction) Value {
		if !ex.gmodeOn() {
			return ex.ts.True
		}
		ex.yield("timer-reset")
		t := ex.timerOf(args[0].(Ptr))
		was := ex.stopTimer(t)
		t.when, t.active = ex.ts.Add(ex.sched.now, args[1].(*Term)), true
		ex.fireTimers()
		return ex.ts.Bool(was)
	})
}

func init() {
	// io.ReadFull(crypto/rand.Reader, buf): the system CSPRNG is an arbitrary byte source
	reg("io.ReadFull", func(ex *Exec, fr *Frame, args []Value, site ssa.Instruction) Value {
		if iv, ok := args[0].(IfaceV); ok && iv.t != nil {
			panic(pathEnd{kind: endUnsupported, msg: "io.ReadFull on an interpreted reader"})
		}
		s := args[1].(SliceV)
		n := 0
		if s.arr != nil {
			n = int(ex.concretize(s.len, "readfull"))
			ex.counters["crand"]++
			for i := 0; i < n; i++ {
				ex.arrWrite(s.arr, ex.ts.Add(s.off, ex.c64(uint64(i))), ex.ts.Var(fmt.Sprintf("crand#%d_%d", ex.counters["crand"], i), 8))
			}
		}
		return TupleV{ex.c64(uint64(n)), IfaceV{}}
	})
	reg("crypto/aes.NewCipher", func(ex *Exec, fr *Frame, args []Value, site ssa.Instruction) Value {
		f := ex.pkg.Func("vfNewCipherBlock")
		if f == nil {
			panic(pathEnd{kind: endUnsupported, msg: "vfNewCipherBlock harness function missing"})
		}
		return TupleV{ex.call(fr, f, nil, nil, site), IfaceV{}}
	})
}
