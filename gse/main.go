package main

import (
	"encoding/json"
	"flag"
	"fmt"
	"os"
	"sort"
	"strconv"
	"strings"
)

func usage() {
	fmt.Fprintln(os.Stderr, `usage:
  vcheck run <harness>... [-tier quick|thorough] [-v] [-j N]     run harnesses, print summaries
  vcheck check <Cxx> [-tier quick|thorough]                      run the registered check of a property
  vcheck replay <file.json>                                      replay a recorded model natively
  vcheck list                                                    list harnesses found in the overlay`)
	os.Exit(2)
}

func tierFromEnv(def string) string {
	if t := os.Getenv("VERIF_TIER"); t == "quick" || t == "thorough" {
		return t
	}
	return def
}

func main() {
	if len(os.Args) < 2 {
		usage()
	}
	cmd := os.Args[1]
	fs := flag.NewFlagSet(cmd, flag.ExitOnError)
	tier := fs.String("tier", "", "quick|thorough")
	verbose := fs.Bool("v", false, "verbose")
	jobs := fs.Int("j", 16, "workers")
	solver := fs.String("solver", "z3-new,z3", "comma-separated portfolio of z3|z3-new|cvc5|cvc5-int")
	maxPaths := fs.Int("maxpaths", 0, "path budget")
	dumpFind := fs.Bool("models", false, "print models of findings")
	var pos []string
	args := os.Args[2:]
	for len(args) > 0 {
		if strings.HasPrefix(args[0], "-") {
			fs.Parse(args)
			args = fs.Args()
			continue
		}
		pos = append(pos, args[0])
		args = args[1:]
	}
	if *tier == "" {
		*tier = tierFromEnv("quick")
	}
	seed := int64(0)
	if s := os.Getenv("VERIF_SEED"); s != "" {
		seed, _ = strconv.ParseInt(s, 10, 64)
	}
	o := defaultOpts()
	o.workers = *jobs
	o.verbose = *verbose
	o.solver = *solver
	o.seed = seed
	// per-harness wall-clock budget: a change that defeats the folding of wrap-safe comparisons can
	// make a scenario's path count explode; the harness is then cut off and reported inconclusive
	// instead of running for hours (the cheap step lemmas of the same check still report)
	o.maxWallS = 480
	if *tier == "thorough" {
		o.tier = 1
		o.maxWallS = 3600
	}
	if s := os.Getenv("VF_WALL_S"); s != "" {
		o.maxWallS, _ = strconv.Atoi(s)
	}
	if *maxPaths > 0 {
		o.maxPaths = *maxPaths
	}
	switch cmd {
	case "list":
		p, err := loadProgram()
		if err != nil {
			fmt.Fprintln(os.Stderr, err)
			os.Exit(2)
		}
		var names []string
		for n := range p.pkg.Members {
			if strings.HasPrefix(n, "vfH_") {
				names = append(names, n)
			}
		}
		sort.Strings(names)
		for _, n := range names {
			fmt.Println(n)
		}
	case "run":
		p, err := loadProgram()
		if err != nil {
			fmt.Fprintln(os.Stderr, err)
			os.Exit(2)
		}
		fmt.Fprintf(os.Stderr, "loaded in %.1fs, ssa %.1fs\n", p.loadS, p.buildS)
		for _, h := range pos {
			if !strings.HasPrefix(h, "vfH_") {
				h = "vfH_" + h
			}
			r := runHarness(p, h, o)
			printResult(r, *dumpFind)
		}
	case "check":
		if len(pos) != 1 {
			usage()
		}
		os.Exit(runCheck(pos[0], *tier, o))
	case "replaymany":
		if len(pos) != 1 {
			usage()
		}
		os.Exit(replayMany(pos[0]))
	case "replay":
		if len(pos) != 1 {
			usage()
		}
		os.Exit(replayFile(pos[0]))
	default:
		usage()
	}
}

func printResult(r *HarnessResult, models bool) {
	fmt.Printf("== %s: paths=%d ends=%v decisions=%d steps=%d queries=%d (sat %d unsat %d unknown %d) solver=%.1fs wall=%.1fs\n",
		r.Name, r.Paths, r.Ends, r.Decisions, r.Steps, r.Queries, r.QSat, r.QUnsat, r.QUnknown, r.SolverS, r.WallS)
	var labs []string
	for k := range r.Asserted {
		labs = append(labs, k)
	}
	sort.Strings(labs)
	for _, k := range labs {
		fmt.Printf("   discharged %-50s x%d\n", k, r.Asserted[k])
	}
	var rs []string
	for k := range r.Reached {
		rs = append(rs, k)
	}
	sort.Strings(rs)
	fmt.Printf("   reached: %v\n", rs)
	for _, f := range r.Findings {
		fmt.Printf("   FINDING [%s] %s x%d %s\n      at %s\n", f.Kind, f.Label, r.FindingCnt[f.Label], f.Msg, f.Site)
		if models {
			b, _ := json.Marshal(f.Model)
			fmt.Printf("      model %s\n", b)
			for k, a := range f.Arrays {
				fmt.Printf("      array %s = %v\n", k, a)
			}
		}
	}
	for _, s := range r.Incon {
		fmt.Printf("   INCONCLUSIVE %s\n", s)
	}
	for _, s := range r.SolverErrs {
		fmt.Printf("   SOLVER-ERR %s\n", s)
	}
	var cs []string
	for k, v := range r.Counters {
		cs = append(cs, fmt.Sprintf("%s=%d", k, v))
	}
	sort.Strings(cs)
	fmt.Printf("   counters: %v\n", cs)
	for _, s := range r.Observes {
		fmt.Printf("   observe %s\n", s)
	}
	if r.PathBudget {
		fmt.Printf("   PATH BUDGET EXCEEDED\n")
	}
}
