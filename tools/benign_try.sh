#!/bin/bash
# usage: benign_try.sh <lane-dir> <k> <R> -- development aid (false-alarm test): applies the behaviour-preserving change
# /tmp/benign/<k>.out/<R>/patch.diff to a scratch copy of the repository and runs the quick checks most closely tied to the
# files it touches (VF_REPO). Any exit status other than 0 is a false alarm (or a harness that no longer builds) to be fixed in /verif.
lane=$1; k=$2; r=$3; p=/tmp/benign/$k.out/$r/patch.diff
declare -A MAP=( [kcp.go]="C04 C02 C01 C05 C12" [fec.go]="C07 C09 C16 C05" [autotune.go]="C16" [sess.go]="C06 C11 C13 C14 C01 C19" [crypt.go]="C08 C14" [entropy.go]="C14" [ringbuffer.go]="C20 C04" [bufferpool.go]="C15" [timedsched.go]="C17 C14" [snmp.go]="C14 C18" [readloop.go]="C11" [tx.go]="C15" )
[ -n "$BCHECKS" ] && for f in "${!MAP[@]}"; do MAP[$f]="$BCHECKS"; done
cd $lane && git checkout -q -- . && git apply $p || { echo "$k/$r: patch does not apply"; exit 2; }
checks=""; for f in $(git diff --name-only); do checks="$checks ${MAP[$f]}"; done
checks=$(echo $checks | tr ' ' '\n' | sort -u | tr '\n' ' ')
res=""
for c in $checks; do
  out=$(VF_REPO=$lane timeout 2400 /verif/bin/vcheck check $c -tier quick -j ${BJ:-8} 2>&1); e=$?
  res="$res $c=$e"
  if [ $e -ne 0 ]; then echo "$out" | grep -E "VIOLATION|violated|INCONCL|CHECK-ERROR|NATIVE|cannot load" | head -8 | cut -c1-400 | sed "s#^#   [$k/$r $c] #"; fi
done
cd $lane && git checkout -q -- .
echo "$k/$r files=[$(cd $lane; git apply --numstat $p | awk '{print $3}' | tr '\n' ' ')] :$res"
