#!/bin/bash
# usage: confirm_seed2.sh <id> <variant>  -- confirms a sub-agent's seeded change in its scratch worktree /tmp/seed2/<id>:
# demo fails with the patch, full suite passes with the patch, demo passes without it. Log: /tmp/seed2/<id>.<variant>.confirm.log
# Suite and demos run in a private network namespace (unshare -n) so that parallel runs cannot clash on the fixed test ports.
id=$1; v=$2; wt=/tmp/seed2/$id; out=/tmp/seed2/$id.out/$v; log=/tmp/seed2/$id.$v.confirm.log
exec > $log 2>&1
cd $wt || exit 2
git checkout -q -- . ; rm -f zz_demo_test.go
export GOFLAGS=-mod=mod GOPROXY=off
git apply $out/patch.diff || { echo "APPLY-FAILED"; exit 2; }
go build ./... || { echo "BUILD-FAILED"; exit 2; }
cp $out/zz_demo_test.go .
race=""; grep -q -- '-race' $out/meta.json && race="-race"
ns() { unshare -n bash -c "ip link set lo up; $1"; }
ns "go test -vet=off -count=1 $race -timeout 10m -run TestDemo ." > /tmp/seed2/$id.$v.demo_with.log 2>&1; echo "demo-with-patch exit=$? (expect non-zero)"
rm zz_demo_test.go
ns "go test -vet=off -count=1 -timeout 25m ./..." > /tmp/seed2/$id.$v.suite_with.log 2>&1; echo "suite-with-patch exit=$? (expect 0)"
git checkout -q -- .
cp $out/zz_demo_test.go .
ns "go test -vet=off -count=1 $race -timeout 10m -run TestDemo ." > /tmp/seed2/$id.$v.demo_without.log 2>&1; echo "demo-without-patch exit=$? (expect 0)"
rm zz_demo_test.go
git status --short
echo DONE
