#!/usr/bin/env python3
"""Development aid (not a registered check): small generic mutation sweep. Mutants (relational
boundary flips, +/-1 drops, dropped assignments) are generated for the non-test library files,
a seeded random sample is taken per file, each mutant is compiled in the scratch copy $VF_REPO
(never /repo) and the checks mapped to that file are run. Survivors are printed for triage
(equivalent mutant? outside the properties? or a gap).  Usage: VF_REPO=<copy> mut_generic.py <n-per-file> [seed]"""
import os, re, subprocess, sys, json, random
repo = os.environ.get("VF_REPO"); assert repo and repo != "/repo"
nper = int(sys.argv[1]) if len(sys.argv) > 1 else 10
rng = random.Random(int(sys.argv[2]) if len(sys.argv) > 2 else 1)
vcheck = os.path.join(os.path.dirname(os.path.dirname(os.path.abspath(__file__))), "bin", "vcheck")
env = dict(os.environ, GOFLAGS="-mod=mod", GOPROXY="off")
CHECKS = {"kcp.go": ["C04", "C02", "C01", "C03", "C05", "C10", "C18", "C12"],
          "fec.go": ["C07", "C09", "C05", "C16", "C10", "C15"],
          "sess.go": ["C06", "C11", "C19", "C09", "C10", "C01", "C15", "C14", "C13"],
          "ringbuffer.go": ["C20"], "timedsched.go": ["C17"], "crypt.go": ["C08"], "autotune.go": ["C16"]}
FILES = os.environ.get("MUT_FILES", "kcp.go,fec.go,sess.go").split(",")
def gen(f):
    out = []
    lines = open(os.path.join(repo, f)).read().split("\n")
    for i, l in enumerate(lines):
        t = l.strip()
        if not t or t.startswith("//") or "debugLog" in t or "atomic.AddUint64(&DefaultSnmp" in t:
            continue
        code = l.split("//")[0]
        for m in re.finditer(r" (<=|>=|<|>) ", code):
            op = m.group(1); new = {"<": "<=", "<=": "<", ">": ">=", ">=": ">"}[op]
            if "for " in code and ":=" in code: continue
            out.append((i, m.start(1), m.end(1), new, "relop"))
        for m in re.finditer(r"(\+|-) ?1\b(?!\d)", code):
            if "[" in code[max(0, m.start()-1):m.start()]: pass
            out.append((i, m.start(), m.end(), "", "drop+-1"))
        if re.match(r"^\s*(kcp|s|dec|enc|seg|segment|l|sess)\.[A-Za-z_.]+ (=|\+=|-=|\|=|&=) [^=]", code) and not code.rstrip().endswith("{"):
            out.append((i, 0, len(l), "", "drop-stmt"))
    return lines, out
total = []
for f in FILES:
    lines, ms = gen(f)
    rng.shuffle(ms)
    total += [(f, m) for m in ms[:nper]]
print(len(total), "mutants sampled", flush=True)
res = []
for n, (f, (i, s, e, new, kind)) in enumerate(total):
    path = os.path.join(repo, f)
    src = open(path).read(); lines = src.split("\n"); orig = lines[i]
    lines[i] = orig[:s] + new + orig[e:]
    open(path, "w").write("\n".join(lines))
    try:
        b = subprocess.run(["go", "build", "./..."], cwd=repo, env=env, capture_output=True, text=True)
        if b.returncode != 0 or subprocess.run(["go", "vet", "-unusedresult=false", "."], cwd=repo, env=env, capture_output=True).returncode not in (0, 1):
            print(f"[{n}] {f}:{i+1} {kind} does not compile", flush=True); continue
        killed = None
        for c in CHECKS[f]:
            r = subprocess.run([vcheck, "check", c, "-tier", "quick", "-j", os.environ.get("MUT_J", "8")], env=env, capture_output=True, text=True)
            labs = sorted(set(re.findall(r"violated: (\S+)", r.stdout)))
            if r.returncode == 1:
                killed = (c, labs[:3]); break
            if r.returncode not in (0,):
                killed = (c, ["exit=%d (inconclusive/error)" % r.returncode]); break
        res.append((f, i + 1, kind, orig.strip(), lines[i].strip(), killed))
        print(f"[{n}] {f}:{i+1} {kind} `{orig.strip()[:80]}` => `{lines[i].strip()[:60]}` :: " + (f"KILLED by {killed[0]} {killed[1]}" if killed else "SURVIVED"), flush=True)
    finally:
        open(path, "w").write(src)
json.dump(res, open("mut_generic_result.json", "w"), indent=1)
