#!/bin/bash
# usage: seed_detect.sh <id>...   applies /verif/seeded/<id>/patch(.rebased).diff to /repo, runs the quick check of
# that property (full pipeline incl. native replay), records the outcome in seeded/<id>/detect.txt, reverts /repo.
for id in "$@"; do
  d=/verif/seeded/$id; p=$d/patch.diff; [ -f $d/patch_rebased.diff ] && p=$d/patch_rebased.diff
  cd /repo && git apply $p || { echo "$id: patch does not apply" | tee $d/detect.txt; continue; }
  extra=""; [ -n "$2" ] && true
  { echo "# git -C /repo apply $p ; /verif/bin/vcheck check $id -tier quick ; git -C /repo checkout -- ."; /verif/bin/vcheck check $id -tier quick 2>&1 | grep -E "VIOLATION|violated|confirmed|^check|INCONCLUSIVE|KNOWN|UNCONF" | cut -c1-300; echo "exit=${PIPESTATUS[0]}"; } > $d/detect.txt 2>&1
  cd /repo && git checkout -- . && git status --short
  echo "$id: $(grep -c VIOLATION $d/detect.txt) violation line(s), $(grep exit= $d/detect.txt)"
done
