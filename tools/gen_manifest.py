#!/usr/bin/env python3
"""Regenerates /verif/MANIFEST.json from the table below (kept next to the checks so the
claimed level, technique and not-applicable reasons stay in one place)."""
import json

TECH = "bounded symbolic execution of the go/ssa form of /repo's working tree (own executor, gse) with SMT queries (z3 5.1, z3 4.8.12 fallback); counterexamples replayed natively via go test -overlay"

CHECKS = {
 "C20": dict(
   text="Inductive step over an arbitrary valid ring: for capacities {8,9,16} (thorough: 8..17,32,64) head, tail and elements are symbolic, so one solver query per assertion covers every layout; each operation's result, abstraction and invariant are compared with the queue model. With the base case (NewRingBuffer) this covers operation sequences of any length at those capacities; growth steps 8->16->32 (all layouts) and 64/1024/1127 (+10% regime) are checked from full rings. Bounded, not a proof: capacities outside the set are not machine-argued.",
   note="Trusted: the gse executor (validated per run by replaying solver-chosen witness models natively and comparing reach labels/assertions), the SMT solvers, go/ssa. Assumes Discard(n>=0), 64-bit int.",
   design="§4 C20"),

 "C04": dict(
   text="Inductive step from an arbitrary valid protocol-core state (all scalar fields, sequence numbers, clock, windows symbolic; queue shapes from a small family): after Input of arbitrary bytes (forged una/sn/wnd/len/cmd), flush, Recv and Send the buffering limits (delivery queue and reorder buffer <= rcv_wnd, in flight <= snd_wnd), the truthful-window clause on every emitted header (decoded by an independent decoder), the admission rule min(snd_wnd, rmt_wnd[, cwnd]) and the RTO->cwnd=1 rule hold, and the representation invariant is preserved, so the limits hold after histories of any length within the shape bound. Bounded symbolic model checking, not a proof.",
   note="Trusted: gse, solvers, the hand-written invariant (its inductiveness is what is checked; conjuncts labelled inv/ are lemma level). Shapes <= 2 per queue, datagrams <= 96 bytes with <= 1 (quick) / 2 (thorough) segments.",
   design="§4 C04"),
 "C05": dict(
   text="Arbitrary bytes (every length 0..2048, free 32-bit length field, forged headers) fed to the real KCP.Input from arbitrary valid states: every implicit Go panic condition (index, slice bounds, nil, division, type assertion) on every explored path is an SMT query, the C04 buffering limits are re-asserted, and per-call growth (pool buffers, ack list, held segments) is bounded by the number of segments. Bounded symbolic model checking.",
   note="Trusted: gse, solvers, INV_KCP. Quick: one complete segment per datagram; thorough: up to three. Session/listener/FEC-decoder paths are covered only by the harnesses listed in the evidence.",
   design="§4 C05"),
 "C10": dict(
   text="Symbolic MTU: for every int passed to the real SetMtu after real traffic at another MTU, an accepted value is followed by flush/Send with no feasible panic and every output(buf,size) call satisfies 0 < size <= mtu; a refused value changes nothing. flush from arbitrary states with a fully symbolic MTU emits only well-formed concatenations of header+len bytes. Bounded symbolic model checking.",
   note="Trusted: gse, solvers. Fragment counts after an MTU change are bounded by 3. Session-level overhead arithmetic is covered only by the harnesses listed in the evidence.",
   design="§4 C10"),
 "C18": dict(
   text="RTO bound clause: rx_minrto <= rx_rto <= 60000 is preserved by update_ack for every rtt/srtt/rttvar (one merged path covering all values, including the rttvar<<2 overflow) and by Input of arbitrary datagrams at arbitrary clocks from arbitrary states; holds initially and after NoDelay with arbitrary arguments. Bounded symbolic model checking; the no-spurious-retransmission clause is claimed only as far as the harnesses listed in the evidence go.",
   note="Trusted: gse, solvers, INV_KCP (srtt, rttvar >= 0 is part of it and re-asserted).",
   design="§4 C18"),
 "C07": dict(
   text="Real fecEncoder.encode -> symbolic arrival sequence -> real fecDecoder.decode, with Reed-Solomon abstracted by its MDS contract: for every arrival sequence (all S^(d+1) sequences with duplicates, quick) of a group placed at 0, at the id wrap, across and at 2^31, as soon as d distinct packets arrived every missing data packet has been emitted byte-for-byte with its length (after the session's size filter), everything emitted equals an original data packet of the group, tuning is never triggered, and skipped or lost parity emits nothing and keeps ids aligned. The stub's pre-condition (every shard handed to the codec equals the encoder's shard in that slot incl. zero padding over unconstrained pool contents) is what makes a wrong slot index, a missing clear() or a wrong length visible. Bounded symbolic model checking under the codec contract.",
   note="Trusted: gse, solvers, the codec contract (klauspost/reedsolomon arithmetic is not re-verified). Ratios up to (3,2) quick / (4,2) thorough, payloads 1..3 bytes.",
   design="§4 C07"),
 "C16": dict(
   text="Stability and detection are one-step facts decided with a fully symbolic sequence id; the period detector is run on all presence patterns (0/1/2 copies of each of 3..6 consecutive ids), every phase, symbolic start id: it returns -1 or exactly the sender's ds/ps, and exactly ds, ps on clean windows of 2S+2 (fresh and wrapped ring); adoption installs the sender's ratio, consistent paws/caches, and a loss in the next group is recovered at positions 0, ~10^6 and 2^31. Bounded symbolic model checking.",
   note="Trusted: gse, solvers, codec contract, insertion-sort model of sort.Slice. Small ratios only (d+p <= 6); the 258+2(d+p) bound is not decided for large d+p.",
   design="§4 C16"),
 "C08": dict(
   text="Differential check of the hand-unrolled encrypt8/16 and decrypt8/16 against a 15-line textbook full-block CFB, both executed symbolically on the same symbolic plaintext with the block cipher as an uninterpreted function, for every length in the tier's set (one path per length class), in place and out of place; plus round trips for Salsa20 (uninterpreted keystream), XOR and none. Most equalities are discharged by term normalisation (xor cancellation over hash-consed UF terms), the rest by the solver; a mismatch yields a concrete plaintext replayed with real AES/DES. Bounded (lengths) symbolic model checking valid for every block function.",
   note="Trusted: gse, solvers, the 15-line reference. Quick covers lengths 0..300 and 1400..1500, thorough all of 0..1500.",
   design="§4 C08"),
 "C06": dict(
   text="Non-interference as a write-set property: for arbitrary datagram bytes on which the configured check fails (stored CRC != f(rest) with f uninterpreted; AEAD Open fails; too short), on every feasible path of the real Listener.packetInput / UDPSession.packetInput the set of locations written — recorded by the executor for everything reachable from listener, table, accept queue and sessions — is empty apart from the error counter and cipher scratch. Conversely every datagram the real send path emits passes the receiver's check (so the CRC covers exactly what is checked, parity included). Bounded symbolic model checking.",
   note="Trusted: gse's store journal (native twin: deep snapshot), solvers; CRC/AEAD strength assumed. Lengths 0..64.",
   design="§4 C06"),
 "C09": dict(
   text="Every datagram a real session puts on the stub socket (cipher x FEC) is parsed by an independent decoder written from the README; CRC range, FEC id/type/size, header fields and payload lengths are asserted and the written stream is reassembled from the wire alone; nonces of any two datagrams come from different entropy calls. Core-level flush harnesses (C04/C10) decode every emitted datagram with the same independent decoder; the encoder's id/type cycle and what is fed to the codec are covered by the C07 harnesses. Bounded symbolic model checking; entropy quality assumed.",
   note="Trusted: gse, solvers, the README-derived decoder. Two writes per run at session level.",
   design="§4 C09"),
 "C11": dict(
   text="One step of the listener's demultiplexer from a table with two peers: write sets of a datagram from one address are disjoint from every other session and table entry; exactly one session/accept per new peer (none when the backlog is full or no conv is present); a foreign conversation id from a known address is ignored or, with sn=0, replaces the session with a fresh one; the core rejects a foreign conv without effect; the dialled read loop drops foreign sources. Sequential by construction of the listener (one goroutine), so sequences of steps cover interleavings. Bounded symbolic model checking.",
   note="Trusted: gse's store journal, solvers. recvmmsg loop and post-close ghost sessions outside.",
   design="§4 C11"),
 "C19": dict(
   text="SendOOB -> real postProcess -> real Listener.packetInput -> handler, with symbolic payload bytes at lengths {0,1,max-1,max,max+1} for three cipher classes: intact or refused, exactly once, never touching KCP, FEC encoder sequence/shard state or FEC decoder (write sets), size on the wire within the MTU, full queue dropped and recycled once, no FEC -> refused. Bounded symbolic model checking.",
   note="Trusted: gse, solvers. Sequential; rates are argued per call.",
   design="§4 C19"),
 "C14": dict(
   text="Partial: a sufficient condition, not schedules. Each entry point of UDPSession/Listener (and the library's own update / postProcess iteration / packetInput bodies, TimedSched.Put) is executed symbolically from an established session with symbolic arguments while a monitor checks every load and store on every feasible path against the discipline the anchors name: protocol core, receive buffer, FEC decoder and flags only under s.mu; the session table only under sessionLock (R/W); cipher scratch under encMu/decMu; deadlines, counters, callbacks only through atomics; construction-time constants never written. By the lock-set argument a clean run implies race freedom for the covered locations under every interleaving. Bounded symbolic model checking of the discipline.",
   note="Trusted: the guard table (hand-written from the anchors), gse's lock model. Interleavings are not enumerated; findings are confirmed by concrete re-execution in gse, not by go test -race.",
   design="§4 C14"),
 "C01": dict(
   text="Content lemmas on the real core from arbitrary valid states with symbolic payload bytes: Send appends exactly the written bytes (segment sizes, fragment numbering, stream-mode fill, 255-fragment limit); flush moves a prefix into flight in order and every PUSH it emits, decoded by the independent decoder, carries exactly the bytes and fragment number of the segment it names; Recv returns exactly the first complete message in order or an error without effect. Together with the C04/C05 Input steps (dedup, window, consecutive delivery, nothing stuck) these compose — by the written argument in DESIGN.md — into 'the reader sees a prefix'. Bounded symbolic model checking of the lemmas; the composition is not machine-checked.",
   note="Trusted: gse, solvers, INV_KCP, the written composition. Payloads <= 7 bytes, MSS 1..3 for the fragmenting cases.",
   design="§4 C01"),
 "C02": dict(
   text="'Nothing can get stuck' as one-step lemmas from arbitrary valid states and clocks: after a full flush every unacknowledged segment has been sent and has a timer strictly ahead and within its rto, an expired timer always retransmits (whatever fastack/dead-link), the returned interval never oversleeps a timer; every PUSH below the window edge — new, duplicate or already delivered — is acknowledged, and a flush sends every owed ack or a covering una; Check never names a time past a timer or tick, Update flushes when due and re-arms within one interval. Bounded symbolic model checking; eventual delivery beyond the scenario bounds is the written composition.",
   note="Trusted: gse, solvers, INV_KCP plus the clock/timestamp relation stated in the evidence.",
   design="§4 C02"),
 "C03": dict(
   text="Zero-window lemmas from arbitrary valid states: with rmt_wnd=0 a flush admits and drops nothing, arms the probe timer in [500 ms,120 s], sends WASK whenever it expired and backs off monotonically; a WASK (or a reader freeing a full queue) yields a WINS with the true free space; any regular segment with wnd>0 reopens the sender and queued data is admitted. Bounded symbolic model checking.",
   note="Trusted: gse, solvers, INV_KCP.",
   design="§4 C03"),
 "C12": dict(
   text="Relational (2-safety) check on the real core: the same arbitrary valid state is built twice, the second copy shifted by three fully symbolic 32-bit offsets (own sequence numbers, peer's sequence numbers, all live timestamps and the clock); the same call (Input of an arbitrary segment, flush, Check, Update, Recv, Send) with correspondingly shifted arguments must give equal results, post-states related by the same shifts and emitted datagrams equal after shifting their sn/una/ts fields — one solver query per assertion covers all 2^96 offset combinations, in particular those placing 2^31/2^32 inside the step. The two-endpoint scenarios additionally run with symbolic origins. Bounded symbolic model checking; induction over steps is the written argument.",
   note="Trusted: gse, solvers, INV_KCP, the liveness case split. Small shape families in the quick tier (relational queries are expensive).",
   design="§4 C12"),
 "C13": dict(
   text="The real Read/Write/AcceptKCP are run as goroutines of a cooperative scheduler inside the symbolic executor, blocked on the real channels/timers of a real session or listener over stub sockets; a symbolic-choice event sequence (data, ACK, new peer, deadline set/cleared/past, Close, socket error) is applied, each event followed by run-to-quiescence in virtual time, and wake-up obligations are asserted at every quiescent point. Schedules within a delay bound and event sequences are enumerated decisions of the executor; the solver decides data- and time-dependent branches. Two defects found this way were repaired, three residual ones are known findings.",
   note="Trusted: the scheduler and timer model of gse (context switches at synchronisation operations only), the delay bound. Counterexamples are confirmed by re-execution inside gse, not natively.",
   design="§4 C13", tech="bounded symbolic execution of the go/ssa form of /repo with a cooperative goroutine scheduler (delay-bounded schedule enumeration, virtual time) and SMT queries (z3) for data/time-dependent branches"),
 "C15": dict(
   text="Ownership: a ghost pool gives every acquisition an identity and every harness of every property reports a second Put or any access to a recycled buffer on every explored path; dedicated steps drive the FEC decoder's recycle paths. Release: client session, listener and accepted session over stub sockets with the real TimedSched are closed in symbolic order in goroutine mode; at quiescence no library goroutine and no update callback is left. Bounded symbolic model checking (ownership) and delay-bounded schedule exploration (release).",
   note="Trusted: gse's pool model and scheduler model. The real sync.Pool and GC are outside.",
   design="§4 C15", tech="bounded symbolic execution of the go/ssa form of /repo with ghost buffer ownership; goroutine release under a cooperative delay-bounded scheduler in virtual time"),
 "C17": dict(
   text="The real NewTimedSched/prepend/sched/Put run under the executor's cooperative scheduler with a timer model implementing both Go timer-channel semantics. With symbolic deadlines the solver case-splits every ordering the code and the timer model can observe (past, now, equal, increasing, decreasing, beyond the horizon) — 10^4 (order type, schedule) paths for 3 tasks; deeper schedule bounds run with enumerated deadlines, 1-2 workers, 1-2 submitters. Asserted at quiescence after 50 ms of virtual time: never early, at most once, every due task ran, far-future tasks do not delay nearer ones, Close stops every goroutine. Bounded symbolic execution with delay-bounded schedule enumeration.",
   note="Trusted: the scheduler and timer model of gse. Real-time latency outside.",
   design="§4 C17", tech="bounded symbolic execution of the go/ssa form of /repo with a cooperative goroutine scheduler and timer model; SMT (z3) case-splits the symbolic deadlines; schedules enumerated within a delay bound"),
}

# Round-2 additions (appended to the claimed-level text of each check)
EXTRA = {
 "C01": " Round 2 adds an end-to-end session link: a real dialled UDPSession and a real Listener/accepted session over stub sockets (cipher x FEC 2/1 x stream/message x read-buffer size), every fate for the first datagrams in both directions, retransmission driven by the real update(): prefix at every Read, everything intact, backlog drains.",
 "C02": " Round 2 adds the converse lemma (a sequence number is acknowledged only if the receiver holds or has delivered it) and runs the two-endpoint scenarios (core and session link: backlog drains after the network heals) and the scheduler's one-worker harness (self-rescheduling update) as part of this check.",
 "C04": " Round 2 adds UDPSession.Write admission (admitted iff fewer than a send window pending, a blocked Write queues nothing), decided sequentially by running the call until it returns or blocks.",
 "C05": " Round 2 runs the Recv content lemma (delivery queue with peer-controlled fragment numbers, PeekSize/Recv agreement, no panic) as part of this check.",
 "C07": " Round 2 adds the end-to-end recovery path: an established FEC 2/1 session, one group of two writes (optionally an OOB message in between), every arrival sequence of three drawn from {data0, data1, parity, OOB, nothing} through the real listener/kcpInput/KCP.Input/Read with no retransmission: any two of three deliver both messages byte for byte.",
 "C08": " Round 2 adds concurrent callers as a havoc/non-interference step: with the other direction's working buffer holding arbitrary bytes, Encrypt still equals textbook CFB, Decrypt still round-trips, and neither writes the other side's buffer (Encrypt and Decrypt hold different mutexes).",
 "C09": " Round 2 adds one inductive step of the real encoder from a symbolic position in the id space (data/parity ids, types, positions in the d+p cycle, next id modulo the wrap value) and runs the C07 encoder harnesses, the flush content lemma and the OOB nonce harness as part of this check.",
 "C10": " Round 2 adds: parity is exactly as long as the longest data packet of its own group (two groups, skipped or not), an accepted MTU shrink in the middle of an FEC group (defect found and repaired: parity of the straddling group exceeded the new MTU), and datagram sizes on both sockets of the session link.",
 "C12": " Round 2 adds the acknowledgement functions on two in-flight segments (relational), a ten-group FEC scenario across the id wrap and across 2^31 with one loss per group (recovery, bounded decoder memory, no suspected mismatch), and runs the FEC group/skip harnesses at the id wrap and at 2^31 as part of this check (FEC ids wrap without disturbing recovery).",
 "C15": " Round 2 adds SendOOB meeting Close (every select outcome, queue full or not: the acquired buffer has exactly one owner) and Close with a full accept backlog while a new peer's datagrams arrive on the receive goroutine (goroutine mode: nothing is left parked). It also runs three traffic-heavy harnesses (session recovery through the FEC decoder, decoder fed arbitrary bytes, auto-tune re-tuning) under the ghost pool as part of this check.",
 "C11": " Round 2 adds: a foreign-conversation segment behind an FEC data header (the listener reads conv and sn at the FEC offsets), the application's late Close of a session that was replaced by a new conversation (successor stays registered), a full accept backlog followed by room (exactly one session/Accept for the waiting peer), and close/reconnect from the same address.",
 "C14": " Round 2 adds: locks named by (struct, field name) so that a removed mutex is reported instead of breaking the harness build, goroutine confinement of the FEC encoder to postProcess (G5), SetRateLimit and consecutive short Reads as entry points.",
 "C16": " Round 2 adds the quantitative clause at its extreme: header-only packet runs of a sender with d+p = 255 (254/1, 128/127, 1/254, 250/5) and smaller groups into a differently configured real decoder; it adopts the sender's ratio within 258+2(d+p) packets from every tested phase and start position (concrete runs executed inside the symbolic executor: no symbolic input beyond the enumerated choices).",
 "C18": " Round 2 adds: the retransmission timer runs from the first transmission — after an acknowledgement-only flush at t1 and a full flush at t1+delta (delta symbolic) every segment first transmitted now has a full RTO (>= the minimum RTO) ahead.",
 "C19": " Round 2 adds OOB interleaved inside an FEC group under loss (session recovery harness): the stream's recovery is unaffected and the OOB message arrives intact.",
}
for k, v in EXTRA.items():
    CHECKS[k]["text"] += v

NOT_APPLICABLE = {}

def main():
    props=[json.loads(l)['id'] for l in open('/verif/properties.jsonl')]
    m={"version":1,
       "setup_cmd":"cd /verif/gse && GOTOOLCHAIN=local GOFLAGS=-mod=mod GOPROXY=off go1.26.8 build -o /verif/bin/vcheck .",
       "hooks":{"guard":"verif","enable":"none needed: harnesses are package-kcp files injected with packages.Config.Overlay (analysis) and go test -overlay (native replay); /repo is not edited","baseline_off_cmd":"cd /repo && go test -vet=off -count=1 -timeout 25m ./...","source_commits":[],"add_only":True},
       "engines":[{"name":"gse","path":"/verif/gse","serves_properties":sorted(CHECKS),"kind_free_text":"symbolic executor over go/ssa (x/tools v0.50.0) of /repo's working tree; path exploration by re-execution from decision prefixes on 16 workers; SMT-LIB2 to persistent z3 5.1 / z3 4.8.12 processes; harnesses in /verif/harness are overlaid into package kcp"}],
       "checks":[], "not_applicable":[],
       "notes":"Every verdict is 'holds for all values within the stated bounds' (bounds, stubs, assumptions are in each evidence file). Exit 0 = held; exit 1 + VIOLATION line = counterexample that reproduced against the real build; exit 3 = inconclusive (solver unknown, unsupported construct, vacuity, translator-validation failure) and is never reported as success. Thorough tier = two passes per harness: pass 1 explores the quick family completely and must be conclusive; pass 2 explores the larger thorough family within a wall-clock budget per harness (300 s, VF_DEEP_S) and is reported per harness in the evidence under deep_exploration as complete (the thorough bounds hold) or incomplete (quick bound + bug hunting beyond it); violations found in either pass are reported alike."}
    for pid in props:
        if pid in CHECKS:
            c=CHECKS[pid]
            m["checks"].append({"property_id":pid,
              "quick_cmd":f"/verif/bin/vcheck check {pid} -tier quick",
              "thorough_cmd":f"/verif/bin/vcheck check {pid} -tier thorough",
              "evidence_file":f"/verif/evidence/{pid}.json",
              "replay_cmd_template":"/verif/bin/vcheck replay {path}",
              "engine":"gse",
              "level_claimed":{"category":"model_checking","text":c["text"],"design_ref":c["design"]},
              "level_note":c["note"],
              "technique":c.get("tech",TECH)})
        else:
            m["not_applicable"].append({"property_id":pid,"reason":NOT_APPLICABLE.get(pid,"check not built yet (work in progress; see DESIGN.md for the plan)")})
    json.dump(m,open('/verif/MANIFEST.json','w'),indent=1)
main()
