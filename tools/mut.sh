#!/bin/bash
# usage: mut.sh <file> <sed-expr> <check-id> [harness...]   (development aid: mutate /repo, run, restore)
f=$1; expr=$2; id=$3; shift 3
cd /repo && sed -i "$expr" $f && git diff --stat | tail -1
if [ $# -gt 0 ]; then timeout ${MUT_TIMEOUT:-900} /verif/bin/vcheck run "$@" $MUT_FLAGS 2>&1 | grep -E "^==|FINDING|INCONCL" | cut -c1-300 | head -20; else timeout ${MUT_TIMEOUT:-1800} /verif/bin/vcheck check $id 2>&1 | grep -E "VIOLATION|violated|^check|INCONCL|KNOWN|UNCONF" | cut -c1-300 | head -20; fi
cd /repo && git checkout -- $f && git status --short | head -3
