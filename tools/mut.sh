#!/bin/bash
# usage: tools_mut.sh <file> <sed-expr> <check-id> [harness...]   (development aid: mutate /repo, run, restore)
f=$1; expr=$2; id=$3; shift 3
cd /repo && cp $f /tmp/mut_backup_$$ && sed -i "$expr" $f && git diff --stat | tail -1
if [ $# -gt 0 ]; then /verif/bin/vcheck run "$@" 2>&1 | grep -E "^==|FINDING|INCONCL" | head -20; else /verif/bin/vcheck check $id 2>&1 | grep -E "VIOLATION|violated|^check|INCONCL|KNOWN|UNCONF" | head -20; fi
cp /tmp/mut_backup_$$ /repo/$f && rm /tmp/mut_backup_$$ && cd /repo && git status --short | head -3
