#!/bin/bash
# usage: confirm_seed.sh <id> [suffix]  -- confirms a sub-agent's seeded change in its scratch worktree:
# demo fails with the patch, full suite passes with the patch, demo passes without it.
id=$1; wt=/tmp/seed/$id; out=/tmp/seed/$id.out; log=/tmp/seed/$id.confirm.log
exec > $log 2>&1
cd $wt || exit 2
git checkout -q -- . ; rm -f zz_demo_test.go
export GOFLAGS=-mod=mod GOPROXY=off
(
flock 9
git apply $out/patch.diff || { echo "APPLY-FAILED"; exit 2; }
go build ./... || { echo "BUILD-FAILED"; exit 2; }
cp $out/zz_demo_test.go . 
demo=$(grep -o 'func Test[A-Za-z0-9_]*' zz_demo_test.go | sed 's/func //' | paste -sd'|')
go test -vet=off -count=1 -timeout 10m -run "^($demo)\$" . > /tmp/seed/$id.demo_with.log 2>&1; echo "demo-with-patch exit=$? (expect non-zero)"
rm zz_demo_test.go
go test -vet=off -count=1 -timeout 25m ./... > /tmp/seed/$id.suite_with.log 2>&1; echo "suite-with-patch exit=$? (expect 0)"
git checkout -q -- .
cp $out/zz_demo_test.go .
go test -vet=off -count=1 -timeout 10m -run "^($demo)\$" . > /tmp/seed/$id.demo_without.log 2>&1; echo "demo-without-patch exit=$? (expect 0)"
rm zz_demo_test.go
) 9>/tmp/seed/suite.lock
git status --short
echo DONE
