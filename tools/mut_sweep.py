#!/usr/bin/env python3
"""Development aid (not a registered check): mutation sweep over the wrap-safe comparisons.
For every `_itimediff(a, b) OP k` site in kcp.go / fec.go / autotune.go the comparison is replaced
by the plain unsigned one (`a OP b`), the mutant is compiled and the given checks are run against
the scratch copy named by $VF_REPO (never /repo). Usage: VF_REPO=<copy> mut_sweep.py <check-id>... """
import os, re, subprocess, sys, json
repo = os.environ.get("VF_REPO")
assert repo and repo != "/repo", "run against a scratch copy (VF_REPO)"
checks = sys.argv[1:] or ["C12"]
vcheck = os.path.join(os.path.dirname(os.path.dirname(os.path.abspath(__file__))), "bin", "vcheck")
env = dict(os.environ, GOFLAGS="-mod=mod", GOPROXY="off")
pat = re.compile(r"_itimediff\(((?:[^(),]|\([^()]*\))+), ((?:[^(),]|\([^()]*\))+)\) (>=|<=|>|<) (0|maxShardSets\*int32\(dec\.shardSize\))")
mutants = []
for f in ["kcp.go", "fec.go", "autotune.go"]:
    lines = open(os.path.join(repo, f)).read().split("\n")
    for i, l in enumerate(lines):
        if l.strip().startswith("//") or l.strip().startswith("func _itimediff"):
            continue
        for m in pat.finditer(l):
            a, b, op, k = m.groups()
            rep = f"({a}) {op} ({b})" if k == "0" else f"({a}) {op} ({b})+uint32(maxShardSets*dec.shardSize)"
            mutants.append((f, i, m.span(), rep, l.strip()))
print(len(mutants), "mutants", flush=True)
res = []
for n, (f, i, (s, e), rep, orig) in enumerate(mutants):
    path = os.path.join(repo, f)
    src = open(path).read()
    lines = src.split("\n")
    lines[i] = lines[i][:s] + rep + lines[i][e:]
    open(path, "w").write("\n".join(lines))
    try:
        b = subprocess.run(["go", "build", "./..."], cwd=repo, env=env, capture_output=True, text=True)
        if b.returncode != 0:
            res.append((f, i + 1, "does-not-compile"))
            print(f"[{n}] {f}:{i+1} does not compile: {b.stderr[:200]}", flush=True)
            continue
        verdicts = {}
        for c in checks:
            r = subprocess.run([vcheck, "check", c, "-tier", "quick", "-j", os.environ.get("MUT_J", "8")], env=env, capture_output=True, text=True)
            labs = sorted(set(re.findall(r"violated: (\S+)", r.stdout)))
            verdicts[c] = (r.returncode, labs[:4])
        res.append((f, i + 1, verdicts))
        print(f"[{n}] {f}:{i+1} `{orig[:70]}` -> {rep[:50]} :: " + "; ".join(f"{c} exit={v[0]} {v[1]}" for c, v in verdicts.items()), flush=True)
    finally:
        open(path, "w").write(src)
json.dump(res, open("mut_sweep_result.json", "w"), indent=1)
