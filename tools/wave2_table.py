#!/usr/bin/env python3
"""Prints the markdown table of the wave-2 seeded changes for DESIGN.md §0.6 from seeded/*-2*/meta.json,
the one-line descriptions below and (if present) the measured round-1 baseline /verif/seeded/wave2_round1_baseline.txt."""
import json, glob, os, re
DESC = {
 "C01-2A": "`Send` fragment limit 255→256 (uint8 wrap in `PeekSize`; same change as wave 1)",
 "C01-2B": "`Recv`'s move loop rewritten without `rcv_nxt++` (duplicate delivery after a full queue)",
 "C02-2A": "ACK for every PUSH, also beyond the receive window (sender forgets data the receiver never had)",
 "C02-2B": "`TimedSched.sched` no longer re-arms its timer after running due tasks",
 "C03-2A": "probe timer test `current >= ts_probe` without wrap-safe difference",
 "C03-2B": "`parse_data` accepts only below `rcv_nxt+wnd_unused()` while `Input` still acks below `rcv_nxt+rcv_wnd`",
 "C04-2A": "`parse_data` move loop without the `rcv_queue.Len() < rcv_wnd` bound",
 "C04-2B": "cwnd update as exclusive `switch` (fast retransmit wins over RTO)",
 "C05-2A": "`discardShards` compares shard ids instead of sequence ids (sets never expire far away)",
 "C05-2B": "`PeekSize` stops after `frg+1` fragments, `Recv` merges until `frg==0` (panic on forged frg)",
 "C06-2A": "client path accepts a stored CRC of 0 as \"no checksum\"",
 "C06-2B": "listener short-packet guard `< nonceSize` (16..19-byte datagram panics)",
 "C07-2A": "`skipParity` without `% paws` (ids misaligned after a skipped parity at the wrap)",
 "C07-2B": "`kcpInput` size-field filter `<=`→`<` (longest recovered packet of a group dropped)",
 "C08-2A": "`decrypt8` leftover case reads `src` after writing `dst` (in-place tail garbage)",
 "C08-2B": "one slab for both working buffers: Encrypt's register aliases Decrypt's look-ahead",
 "C09-2A": "`skipParity` wrap by compare-and-subtract with `>` instead of `>=`",
 "C09-2B": "parity packets reuse the data packet's nonce",
 "C10-2A": "`SetMtu` fit test against MTU instead of MSS (24-byte window: empty output, datagram > MTU)",
 "C10-2B": "`maxSize` reset only when parity is generated (stale parity length after a skipped group)",
 "C11-2A": "listener reads `sn` at `fecHeaderSize` instead of `fecHeaderSizePlus2` (FEC data branch)",
 "C11-2B": "`UDPSession.Close` calls `closeSession` before the close-once guard (late Close unregisters the successor)",
 "C12-2A": "`parse_fastack` compares timestamps unsigned",
 "C12-2B": "`newestShardId` update compares shard ids (never newer after the id wrap)",
 "C13-2A": "`WriteBuffers` enables the timer channel only when the timer is created (set→cleared→set)",
 "C13-2B": "`Read` left-over path: `more` ignores `bufptr` (second reader not woken)",
 "C14-2A": "`Read` decides `more` after `Unlock` (reads `bufptr`/`PeekSize` unlocked)",
 "C14-2B": "`decMu` removed from `blockCrypt`",
 "C15-2A": "`SendOOB` die branch recycles the buffer twice",
 "C15-2B": "accept-backlog guard `>=`→`>` (receive goroutine parked forever, orphan session)",
 "C16-2A": "sample ring 258→256 with mask (d+p=255 never converges)",
 "C16-2B": "decode caches reused when large enough (shrinking ratio: every reconstruction fails)",
 "C17-2A": "stale `armed` deadline skips timer re-arm (same idea as wave 1)",
 "C17-2B": "`prepend` swallows a wake-up sent during the hand-off",
 "C18-2A": "`update_ack` clamps the sample, drops the upper clamp of the result",
 "C18-2B": "resend timer armed when a segment enters `snd_buf` (ACK-only flush) instead of at first transmission",
 "C19-2A": "`SendOOB` size check without the 4-byte conv (max+1..max+4 accepted)",
 "C19-2B": "listener reads an OOB packet's conv only when no session exists",
 "C20-2A": "`ForEachReverse` wrapped bound `>=`→`>` (same change as wave 1)",
 "C20-2B": "`Discard` no longer clears the wrapped prefix (slots retain elements)",
}
base = {}
bf = "/verif/seeded/wave2_round1_baseline.txt"
if os.path.exists(bf):
    for l in open(bf):
        m = re.match(r"(C\d\d) ([AB]) exit=(\d+)", l)
        if m: base[f"{m.group(1)}-2{m.group(2)}"] = int(m.group(3))
print("| Seed | Change | Round-1 check (measured) | Reported now by (label) |")
print("|---|---|---|---|")
for d in sorted(glob.glob("/verif/seeded/C??-2?")):
    k = os.path.basename(d)
    m = json.load(open(d + "/meta.json"))
    labs = m["detection"]["violated_labels"]
    lab = labs[0] if labs else "—"
    lab = re.sub(r"^C\d\d_", "", lab) if False else lab
    b = base.get(k)
    bs = {None: "n/a", 0: "**missed**", 1: "reported", 124: "**not within 25 min**", 3: "inconclusive", 2: "check error"}.get(b, str(b))
    print(f"| {k} | {DESC.get(k,'')} | {bs} | `{lab}`{' (+%d more)' % (len(labs)-1) if len(labs) > 1 else ''} |")
