#!/bin/bash
# usage: keep_seed2.sh <id> <variant>   -- after confirm_seed2.sh succeeded: stores the change as /verif/seeded/<id>-2<variant>/
# (patch.diff, zz_demo_test.go, meta.json) and records what the property's own quick check reports on it (detect.txt).
id=$1; v=$2; src=/tmp/seed2/$id.out/$v; d=/verif/seeded/$id-2$v; log=/tmp/seed2/$id.$v.confirm.log
grep -q "demo-with-patch exit=[1-9]" $log && grep -q "suite-with-patch exit=0" $log && grep -q "demo-without-patch exit=0" $log || { echo "$id $v: not confirmed"; exit 1; }
mkdir -p $d && cp $src/patch.diff $src/zz_demo_test.go $d/
cd /repo && git apply $d/patch.diff || { echo "$id $v: patch does not apply to /repo HEAD"; exit 2; }
{ echo "# git -C /repo apply seeded/$id-2$v/patch.diff ; /verif/bin/vcheck check $id -tier quick ; git -C /repo checkout -- ."; timeout 3000 /verif/bin/vcheck check $id -tier quick 2>&1 | grep -E "VIOLATION|violated|confirmed|^check|INCONCLUSIVE|KNOWN|UNCONF" | cut -c1-300; echo "exit=${PIPESTATUS[0]}"; } > $d/detect.txt 2>&1
cd /repo && git checkout -- . && git status --short
python3 - "$id" "$v" <<'PY'
import json,sys,re
id,v=sys.argv[1],sys.argv[2]
src=f'/tmp/seed2/{id}.out/{v}/meta.json'; d=f'/verif/seeded/{id}-2{v}'
try: m=json.load(open(src))
except Exception as e: m={"property":id,"summary":"(agent meta.json unreadable: %s)"%e}
det=open(d+'/detect.txt').read()
m["breaks_property"]=id
m["written_by"]="fresh sub-agent (wave 2) given only the property text and a scratch git worktree (no access to /verif); asked for two changes in different mechanisms"
m["confirmed_here"]={"how":"tools/confirm_seed2.sh in the scratch worktree, suite and demo in a private network namespace: patch applied -> demo test fails; demo removed -> full existing suite (go test -vet=off -count=1 -timeout 25m ./...) passes; patch reverted -> demo passes",
  "demo_with_change":"FAIL","suite_with_change":"PASS","demo_without_change":"PASS"}
m["detection"]={"command":f"git -C /repo apply seeded/{id}-2{v}/patch.diff ; /verif/bin/vcheck check {id} -tier quick ; git -C /repo checkout -- .",
  "exit":int(re.search(r'exit=(\d+)',det).group(1)),
  "violated_labels":sorted(set(re.findall(r'violated: (\S+)',det))),"output":"detect.txt"}
json.dump(m,open(d+'/meta.json','w'),indent=1)
print(id,v,"kept; exit",m["detection"]["exit"],m["detection"]["violated_labels"][:3])
PY
