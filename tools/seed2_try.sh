#!/bin/bash
# usage: seed2_try.sh <id> <variant> [check-id]   (development aid) applies /tmp/seed2/<id>.out/<variant>/patch.diff to /repo,
# runs the quick check of the property, reverts /repo. Output: /tmp/seed2/<id>.<variant>.detect.txt
id=$1; v=$2; chk=${3:-$id}; p=/tmp/seed2/$id.out/$v/patch.diff; out=/tmp/seed2/$id.$v.detect.$chk.txt
cd /repo && git apply $p || { echo "$id/$v: patch does not apply"; exit 2; }
{ echo "# git -C /repo apply patch.diff ; /verif/bin/vcheck check $chk -tier quick ; git -C /repo checkout -- ."; timeout 3000 /verif/bin/vcheck check $chk -tier quick 2>&1 | grep -E "VIOLATION|violated|confirmed|^check|INCONCLUSIVE|KNOWN|UNCONF" | cut -c1-300; echo "exit=${PIPESTATUS[0]}"; } > $out 2>&1
cd /repo && git checkout -- . && git status --short
echo "$id/$v on $chk: $(grep -c '^VIOLATION' $out) violation line(s), $(grep exit= $out)"
