package kcp

// C15 — (a) Close releases every goroutine and scheduled callback the library started
// (goroutine mode); (b) pooled buffers have one owner: the pool stub's ghost ownership is
// asserted on every path of every harness that touches the pool (double Put, use after Put);
// the dedicated steps below drive the paths that recycle buffers.

import (
	"net"
	"time"
)

// a client session, a listener and its accepted session over stub sockets, closed in a symbolic
// order at a symbolic point; at quiescence no library goroutine is left and no update callback
// re-arms itself.
func vfH_C15_close_releases_goroutines() {
	vfSetClock(vfU32("t0"))
	vfGoroutineMode(1, false)
	SystemTimedSched = NewTimedSched(1) // the real scheduler, so that update callbacks really run
	sched := SystemTimedSched
	cconn, lconn := vfNewScriptedBlockingConn(), vfNewScriptedBlockingConn()
	client := newUDPSession(vfU32("conv"), 0, 0, nil, cconn, false, vfServerAddr, nil)
	l, _ := serveConn(nil, 0, 0, lconn, false)
	vfQuiesce(int(time.Millisecond))
	started := vfLiveGoroutines()
	vfAssert("c15/goroutines-started", started >= 4)
	vfReach("started")
	if vfPick("traffic", 0, 1) == 1 {
		client.Write(vfBytes("m", 3))
		vfQuiesce(int(time.Millisecond))
		for _, w := range cconn.writes {
			l.packetInput(vfCopy(w.data), vfClientAddr)
		}
		vfQuiesce(int(time.Millisecond))
	}
	var srv *UDPSession
	if len(l.chAccepts) > 0 {
		srv = <-l.chAccepts
	}
	order := vfPick("close-order", 0, 2)
	closeAll := func(k int) {
		switch k {
		case 0:
			client.Close()
		case 1:
			if srv != nil {
				srv.Close()
			}
		case 2:
			l.Close()
		}
	}
	for i := 0; i < 3; i++ {
		closeAll((order + i) % 3)
		vfQuiesce(int(200 * time.Millisecond)) // more than one update interval
	}
	// the transport: a closed socket makes the read loops return
	cconn.fail()
	lconn.fail()
	vfQuiesce(int(200 * time.Millisecond))
	sched.Close()
	vfQuiesce(int(time.Millisecond))
	vfReach("closed")
	vfAssert("c15/every-library-goroutine-has-exited", vfLiveGoroutines() == 0)
	vfAssert("c15/no-update-callback-left-pending", len(sched.prependTasks) == 0)
}

// vfBlockingConn: ReadFrom blocks until fail() is called (goroutine mode).
type vfBlockingConn struct {
	vfConn
	failed chan struct{}
}

func vfNewScriptedBlockingConn() *vfBlockingConn {
	return &vfBlockingConn{failed: make(chan struct{})}
}
func (c *vfBlockingConn) fail() { close(c.failed) }
func (c *vfBlockingConn) ReadFrom(p []byte) (int, net.Addr, error) {
	<-c.failed
	return 0, nil, vfErrShardSize
}

// buffer ownership on the recycle paths of the FEC decoder: a false-alarm re-tune (the detector
// confirms the current ratio) must not recycle shards the decoder keeps.
func vfH_C15_fec_false_alarm_retune() {
	r := vfRatio{2, 1}
	S := r.d + r.p
	enc := newFECEncoder(r.d, r.p, 0)
	dec := newFECDecoder(r.d, r.p)
	enc.tsLatestPacket = vfRecentMilli("tsLatest")
	sent := vfEncodeGroups(enc, 4, []int{1, 2})
	if len(sent) != 4*S {
		vfStop()
	}
	vfReach("encoded")
	feed := func(s vfSent, flip bool) [][]byte {
		in := vfCopy(s.pkt)
		if flip {
			in[4] ^= 3 // data <-> parity type marker
		}
		return dec.decode(in)
	}
	// three complete groups, then one data packet of the fourth is held
	for _, s := range sent[:3*S] {
		feed(s, false)
	}
	feed(sent[3*S], false)
	held := 0
	for _, h := range dec.shardSet {
		held += len(h.elements)
	}
	vfAssert("c15/decoder-holds-a-shard", held >= 1)
	// a packet whose type contradicts its position: tuning is suspected, the detector finds the
	// current ratio again (false alarm)
	feed(sent[3*S+1], true)
	vfReach("false-alarm")
	// the rest of the group arrives: recovery reads the held shards
	rec := feed(sent[3*S+2], false)
	_ = rec
	vfReach("done")
	// ghost ownership (double Put / use after Put) is asserted by the pool stub on every access
	vfAssert("c15/pool-balance", vfPoolLive() >= 0)
}

// buffer ownership on the session's transmit paths: a full post-processing queue (the output
// callback drops and recycles), and a socket write error in the middle of a batch
func vfH_C15_tx_paths() {
	ck := []int{vfCipherNil, vfCipherNone}[vfPick("cipher", 0, 1)]
	d, p := vfPickFEC()
	conn := vfNewConn()
	s := vfNewSession(vfU32("conv"), d, p, nil, conn, vfServerAddr, vfMakeCipher(ck))
	s.SetNoDelay(0, 100, 0, 1)
	vfSetClock(vfU32("t0"))
	switch vfPick("case", 0, 1) {
	case 0:
		// queue full: everything the core emits is dropped by the callback
		for len(s.chPostProcessing) < cap(s.chPostProcessing) {
			s.chPostProcessing <- sendRequest{defaultBufferPool.Get()[:40], false}
		}
		live0 := vfPoolLive()
		s.Write(vfBytes("m", 3))
		vfReach("written")
		vfAssert("c15/dropped-output-buffers-are-recycled", vfGhost(vfPoolLive() == live0+1)) // +1: the segment itself stays queued
	case 1:
		s.Write(vfBytes("m0", 3))
		s.Write(vfBytes("m1", 2))
		conn.failTx = true
		live0 := vfPoolLive()
		vfDrainTx(s)
		vfReach("written")
		vfAssert("c15/tx-error-recycles-the-whole-batch", vfGhost(vfPoolLive() < live0))
		vfAssert("c15/tx-error-reported", s.socketWriteError.Load() != nil)
	}
	vfReach("done")
}

// buffer ownership when an out-of-band message meets Close: SendOOB on a closed FEC session, with
// the post-processing queue full or with room. Whatever outcome its select takes (queued, session
// closing, dropped), the pooled buffer it acquired ends up with exactly one owner: handed to the
// queue, or recycled exactly once (the ghost pool reports a second Put on any path).
func vfH_C15_oob_meets_close() {
	conn := vfNewConn()
	s := vfNewSession(vfU32("conv"), 2, 1, nil, conn, vfServerAddr, nil)
	vfSetClock(vfU32("t0"))
	full := vfPick("queue-full", 0, 1) == 1
	if full {
		for len(s.chPostProcessing) < cap(s.chPostProcessing) {
			s.chPostProcessing <- sendRequest{defaultBufferPool.Get()[:40], false}
		}
	}
	closed := vfPick("closed", 0, 1) == 1
	if closed {
		vfAssert("oobclose/close", s.Close() == nil)
	}
	queued0, live0 := len(s.chPostProcessing), vfPoolLive()
	vfReach("pre")
	err := s.SendOOB(vfBytes("oob", 3))
	vfReach("post")
	queued := len(s.chPostProcessing) - queued0
	// (the queue is only observable while the post-processing goroutine is not running: under gse
	// it is driven by the harness; natively it drains the queue concurrently, hence vfGhost)
	vfAssert("c15/oob/queued-at-most-once", vfGhost(queued == 0 || queued == 1))
	// one acquisition: either it sits in the queue (live +1) or it was recycled (live +0)
	vfAssert("c15/oob/buffer-has-exactly-one-owner", vfGhost(vfPoolLive() == live0+queued))
	if !closed {
		vfAssert("c15/oob/live-session-never-fails", err == nil)
	}
	if full && !closed {
		vfAssert("c15/oob/full-queue-drops", vfGhost(queued == 0))
	}
}

// Close with a full accept backlog: a new peer's datagrams arrive (on the receive goroutine)
// while the application has not accepted the 128 earlier connections. Nothing may be left
// behind after the listener, the client and the transport are closed — in particular the
// receive goroutine must not be parked forever handing over a session nobody will accept.
func vfH_C15_close_with_full_backlog() {
	vfSetClock(vfU32("t0"))
	vfGoroutineMode(1, false)
	SystemTimedSched = NewTimedSched(1)
	sched := SystemTimedSched
	cconn, lconn := vfNewScriptedBlockingConn(), vfNewScriptedBlockingConn()
	client := newUDPSession(vfU32("conv"), 0, 0, nil, cconn, false, vfServerAddr, nil)
	l, _ := serveConn(nil, 0, 0, lconn, false)
	for i := 0; i < acceptBacklog; i++ {
		l.chAccepts <- nil
	}
	client.Write(vfBytes("m", 3))
	vfQuiesce(int(time.Millisecond))
	vfAssert("backlog/client-emitted", len(cconn.writes) >= 1)
	for _, w := range cconn.writes {
		dg := vfCopy(w.data)
		go l.packetInput(dg, vfClientAddr) // what the listener's receive goroutine does
	}
	vfQuiesce(int(time.Millisecond))
	vfReach("arrived")
	vfAssert("c15/backlog/full-backlog-creates-nothing", len(l.sessions) == 0)
	client.Close()
	l.Close()
	vfQuiesce(int(200 * time.Millisecond))
	cconn.fail()
	lconn.fail()
	vfQuiesce(int(200 * time.Millisecond))
	sched.Close()
	vfQuiesce(int(time.Millisecond))
	vfReach("closed")
	vfAssert("c15/backlog/every-goroutine-has-exited", vfLiveGoroutines() == 0)
	vfAssert("c15/backlog/no-update-callback-left-pending", len(sched.prependTasks) == 0)
}
