package kcp

// FEC harnesses: C07 (reconstruction), C16 (ratio mismatch / autotune),
// C05 (decoder fed arbitrary bytes), C09 (d,e: encoder invariant and what is fed to the codec).

import "encoding/binary"

type vfRatio struct{ d, p int }

func vfRatios() []vfRatio {
	if vfTier() > 0 {
		return []vfRatio{{1, 1}, {2, 1}, {2, 2}, {3, 2}, {1, 3}, {3, 1}, {4, 2}}
	}
	return []vfRatio{{1, 1}, {2, 1}, {2, 2}, {3, 2}}
}

func vfPickRatio(name string) vfRatio {
	r := vfRatios()
	return r[vfPick(name, 0, len(r)-1)]
}

// vfGroupBase: first sequence id of the group under test.
func vfGroupBase(S int) uint32 {
	paws := 0xffffffff / uint32(S) * uint32(S)
	switch vfPick("position", 0, 3) {
	case 0:
		return 0
	case 1:
		return paws - uint32(S) // last group before the wrap
	case 2:
		return (0x80000000/uint32(S))*uint32(S) - uint32(S) // straddles 2^31
	default:
		return (0x80000000 / uint32(S)) * uint32(S)
	}
}

type vfSent struct {
	pkt   []byte // as put on the wire (from the FEC header on)
	data  bool
	idx   int
	orig  []byte // original KCP payload for data packets (after the 2-byte size)
	group int
}

// vfEncodeGroups runs the real encoder over ng groups of d packets each (symbolic payloads of
// small symbolic-choice lengths) and returns everything it put on the wire.
func vfEncodeGroups(enc *fecEncoder, ng int, lens []int) (sent []vfSent) {
	d := enc.dataShards
	for g := 0; g < ng; g++ {
		for i := 0; i < d; i++ {
			l := lens[(g*d+i)%len(lens)]
			b := make([]byte, fecHeaderSizePlus2+l)
			pay := vfBytes(vfName(vfName("pay", g)+"_", i), l)
			copy(b[fecHeaderSizePlus2:], pay)
			vfBeforeEncode()
			ps := enc.encode(b, maxFECEncodeLatency)
			cp := make([]byte, len(b))
			copy(cp, b)
			sent = append(sent, vfSent{pkt: cp, data: true, idx: i, orig: pay, group: g})
			for k := range ps {
				pc := make([]byte, len(ps[k]))
				copy(pc, ps[k])
				sent = append(sent, vfSent{pkt: pc, data: false, idx: d + k, group: g})
			}
		}
	}
	return
}

// vfFilterRecovered applies kcpInput's size-field filter to what decode returned.
func vfFilterRecovered(recovers [][]byte) (out [][]byte) {
	for _, r := range recovers {
		if len(r) >= 2 {
			sz := binary.LittleEndian.Uint16(r)
			if int(sz) <= len(r) && sz >= 2 {
				out = append(out, r[2:sz])
			}
		}
	}
	return
}

func vfBytesEq(a, b []byte) bool {
	if len(a) != len(b) {
		return false
	}
	eq := true
	for i := range a {
		eq = vfAnd(eq, a[i] == b[i])
	}
	return eq
}

// C07: one group (plus its predecessor for interleaving) through the real encoder, a symbolic
// arrival sequence through the real decoder.
func vfH_C07_group() {
	r := vfPickRatio("ratio")
	S := r.d + r.p
	enc := newFECEncoder(r.d, r.p, 0)
	dec := newFECDecoder(r.d, r.p)
	base := vfGroupBase(S)
	enc.next = base
	// the decoder has tracked the stream up to the previous group
	if base != 0 {
		dec.newestShardId = base/uint32(S) - 1
	}
	// the encoder has been running: its last packet went out at an arbitrary earlier time
	enc.tsLatestPacket = vfRecentMilli("tsLatest")
	lens := [][]int{{1, 3, 2}, {2, 2, 2}, {3, 1, 1}}[vfPick("lens", 0, 2)]
	sent := vfEncodeGroups(enc, 1, lens)
	if len(sent) != S {
		// the sender skipped parity for a non-continuous group: that case is vfH_C07_skip_parity
		vfAssert("c09/skip-emits-no-parity", len(sent) == r.d)
		vfStop()
	}
	vfReach("encoded")
	J := r.d + 1
	if vfTier() > 0 {
		J = S + 1
	}
	got := make([]bool, S)      // slots received so far
	emitted := make([]int, r.d) // how often data packet i was emitted by the decoder
	distinct := 0
	for a := 0; a < J; a++ {
		c := vfPick(vfName("arrival", a), 0, S-1)
		s := sent[c]
		in := make([]byte, len(s.pkt))
		copy(in, s.pkt)
		rec := vfFilterRecovered(dec.decode(in))
		if !got[s.idx] {
			got[s.idx] = true
			distinct++
		}
		for _, rp := range rec {
			// (3) everything emitted is an original data packet of the group
			matched := false
			for i := 0; i < r.d; i++ {
				o := sent[vfDataPos(sent, i)].orig
				if len(rp) == len(o) && vfConcreteBool(vfBytesEq(rp, o)) {
					// identical payloads cannot be told apart: credit every original it equals
					matched = true
					emitted[i]++
				}
			}
			vfAssert("c07/emitted-is-an-original-data-packet", matched)
		}
		vfAssert("c07/shouldTune-stays-clear", !dec.shouldTune)
		// (2) as soon as d distinct packets have arrived every missing data packet has been emitted
		if distinct >= r.d {
			for i := 0; i < r.d; i++ {
				vfAssert("c07/missing-data-reconstructed-once-d-arrived", vfImplies(!got[i], emitted[i] >= 1))
			}
		}
	}
	vfReach("done")
	vfAssert("c07/decoder-memory-bounded", len(dec.shardSet) <= maxShardSets+2)
}

func vfDataPos(sent []vfSent, i int) int {
	for k := range sent {
		if sent[k].data && sent[k].idx == i {
			return k
		}
	}
	return -1
}

// vfConcreteBool forks on a symbolic boolean and returns it concretely.
func vfConcreteBool(b bool) bool {
	if b {
		return true
	}
	return false
}

// C07(4): parity skipped by the sender (non-continuous data) or all parity lost: nothing is
// emitted, nothing is lost, the sequence ids stay aligned for the next group.
func vfH_C07_skip_parity() {
	r := vfPickRatio("ratio")
	S := r.d + r.p
	enc := newFECEncoder(r.d, r.p, 0)
	dec := newFECDecoder(r.d, r.p)
	base := vfGroupBase(S)
	enc.next = base
	if base != 0 {
		dec.newestShardId = base/uint32(S) - 1
	}
	sent := vfEncodeGroups(enc, 2, []int{1, 2})
	vfReach("encoded")
	paws := 0xffffffff / uint32(S) * uint32(S)
	vfAssert("c09/ids-advance-by-S-per-group", uint64(enc.next) == (uint64(base)+2*uint64(S))%uint64(paws))
	for _, s := range sent {
		if !s.data {
			continue // all parity lost (or never sent)
		}
		in := make([]byte, len(s.pkt))
		copy(in, s.pkt)
		rec := dec.decode(in)
		vfAssert("c07/no-recovery-without-loss", len(rec) == 0)
		vfAssert("c07/shouldTune-stays-clear", !dec.shouldTune)
	}
	vfReach("done")
}

// C16(a): a genuine packet of a matching encoder never makes the decoder suspect a mismatch,
// whatever its sequence id (one step, symbolic id) and whatever arrived before.
func vfH_C16_stable() {
	r := vfPickRatio("ratio")
	S := uint32(r.d + r.p)
	dec := newFECDecoder(r.d, r.p)
	seq := vfU32("seqid")
	vfAssume(seq < dec.paws)
	isData := seq%S < uint32(r.d)
	in := make([]byte, fecHeaderSizePlus2+2)
	binary.LittleEndian.PutUint32(in, seq)
	binary.LittleEndian.PutUint16(in[4:], uint16(vfIteInt(isData, typeData, typeParity)))
	copy(in[6:], vfBytes("body", 4))
	vfReach("pre")
	dec.decode(in)
	vfReach("post")
	vfAssert("c16/genuine-packet-never-triggers-tuning", !dec.shouldTune)
	vfAssert("c16/ratio-unchanged", vfAnd(dec.dataShards == r.d, dec.parityShards == r.p))
}

// C16(b): a packet whose type contradicts its position suspends decoding without leaking.
func vfH_C16_detect() {
	r := vfPickRatio("ratio")
	S := uint32(r.d + r.p)
	dec := newFECDecoder(r.d, r.p)
	seq := vfU32("seqid")
	vfAssume(seq < dec.paws)
	isData := seq%S < uint32(r.d)
	in := make([]byte, fecHeaderSizePlus2+2)
	binary.LittleEndian.PutUint32(in, seq)
	binary.LittleEndian.PutUint16(in[4:], uint16(vfIteInt(isData, typeParity, typeData)))
	vfReach("pre")
	gets0 := vfPoolGets()
	rec := dec.decode(in)
	vfReach("post")
	vfAssert("c16/mismatch-detected", dec.shouldTune)
	vfAssert("c16/nothing-decoded-while-suspected", len(rec) == 0)
	vfAssert("c16/no-buffer-taken-while-suspected", vfPoolGets() == gets0)
	vfAssert("c16/no-shard-stored-while-suspected", len(dec.shardSet) == 0)
}

// C05: arbitrary bytes into the decoder (after the caller's length check), from a decoder that
// holds shards: no panic, bounded growth.
func vfH_C05_fecdecode() {
	r := vfPickRatio("ratio")
	S := r.d + r.p
	dec := newFECDecoder(r.d, r.p)
	// pre-state: some genuine shards of the current group are held
	enc := newFECEncoder(r.d, r.p, 0)
	base := vfGroupBase(S)
	enc.next = base
	if base != 0 {
		dec.newestShardId = base/uint32(S) - 1
	}
	sent := vfEncodeGroups(enc, 1, []int{1, 2})
	held := vfPick("held", 0, r.d-1)
	for i := 0; i < held; i++ {
		in := make([]byte, len(sent[i].pkt))
		copy(in, sent[i].pkt)
		dec.decode(in)
	}
	vfReach("pre")
	const N = 40
	full := vfBytes("dg", N)
	// lengths are case-split (a symbolic length would make every later offset symbolic)
	n := []int{8, 9, 10, 11, 12, 13, N}[vfPick("dg_n", 0, 6)]
	// the session only routes packets whose type field says data or parity to the decoder
	flag := uint16(full[4]) | uint16(full[5])<<8
	vfAssume(vfOr(flag == typeData, flag == typeParity))
	sets0 := len(dec.shardSet)
	gets0 := vfPoolGets()
	rec := dec.decode(full[:n])
	vfReach("post")
	vfAssert("fecdecode/shard-sets-grow<=1", len(dec.shardSet) <= sets0+1)
	vfAssert("fecdecode/shard-sets-bounded", len(dec.shardSet) <= maxShardSets+2)
	vfAssert("fecdecode/pool-gets-bounded", vfPoolGets()-gets0 <= 1+r.d)
	vfAssert("fecdecode/recovered<=d", len(rec) <= r.d)
	for _, h := range dec.shardSet {
		vfAssert("fecdecode/shards-per-set<=S", len(h.elements) <= S)
		vfAssert("fecdecode/marks-match", len(h.marks) == len(h.elements))
	}
	// every held group lies within the discard horizon behind the newest one (so at most
	// maxShardSets+1 groups are ever held); a group exactly 2^31 ids away is the one value the
	// signed metric cannot order and is tolerated
	for g := range dec.shardSet {
		age := _itimediff(dec.newestShardId*uint32(S), g*uint32(S))
		vfAssert("fecdecode/held-groups-within-horizon", vfAnd(age <= maxShardSets*int32(S), vfOr(age >= 0, age == -0x80000000)))
	}
	vfAssert("autotune/indices-in-range", vfAnd(vfAnd(dec.autoTune.head >= 0, dec.autoTune.head < maxAutoTuneSamples), vfAnd(dec.autoTune.tail >= 0, dec.autoTune.tail < maxAutoTuneSamples)))
	// feed whatever came out through the session's filter: no panic there either
	vfFilterRecovered(rec)
}

// C16(c): the period detector never reports a wrong ratio: a window of n consecutive ids of a
// sender (ds,ps), each present 0, 1 or 2 times, from a symbolic start id and every phase, yields
// -1 or exactly ds / ps; a clean window with a complete pulse of each kind yields exactly ds, ps.
func vfH_C16_findperiod() {
	r := vfPickRatio("sender")
	S := r.d + r.p
	n := vfPick("n", 3, 6)
	if vfTier() > 0 {
		n = vfPick("n", 3, 8)
	}
	ph := vfPick("phase", 0, S-1)
	s0 := vfU32("s0")
	var tune autoTune
	rev := vfPick("reverse-insertion", 0, 1) == 1
	clean := true
	total := 0
	for kk := 0; kk < n; kk++ {
		k := kk
		if rev {
			k = n - 1 - kk
		}
		times := vfPick(vfName("present", k), 0, 2)
		if times != 1 {
			clean = false
		}
		for t := 0; t < times; t++ {
			tune.Sample((ph+k)%S < r.d, s0+uint32(k))
			total++
		}
	}
	vfReach("sampled")
	gd := tune.FindPeriod(true)
	gp := tune.FindPeriod(false)
	vfReach("post")
	vfAssert("findperiod/data-period-is-ds-or-unknown", gd == -1 || gd == r.d)
	vfAssert("findperiod/parity-period-is-ps-or-unknown", gp == -1 || gp == r.p)
	vfAssert("findperiod/indices-in-range", vfAnd(tune.count == total, tune.tail == total%maxAutoTuneSamples))
	_ = clean
}

// C16(c) clean run: an uninterrupted window of 2S+2 packets always contains a complete pulse of
// each kind, so both periods are found exactly — from every phase and start id, also when the
// sample ring has wrapped.
func vfH_C16_findperiod_clean() {
	r := vfPickRatio("sender")
	S := r.d + r.p
	ph := vfPick("phase", 0, S-1)
	s0 := vfU32("s0")
	var tune autoTune
	if vfPick("ring-wrapped", 0, 1) == 1 {
		// the ring is full of older, consecutive history of the same sender and wraps
		tune.count = maxAutoTuneSamples
		tune.head = 250
		tune.tail = 250
		for i := 0; i < maxAutoTuneSamples; i++ {
			back := maxAutoTuneSamples - i
			// older ids: s0-back, phase consistent
			bit := ((ph-back)%S+S)%S < r.d
			tune.pulses[(250+i)%maxAutoTuneSamples] = pulse{bit: bit, seq: s0 - uint32(back)}
		}
	}
	n := 2*S + 2
	for k := 0; k < n; k++ {
		tune.Sample((ph+k)%S < r.d, s0+uint32(k))
	}
	vfReach("sampled")
	gd := tune.FindPeriod(true)
	gp := tune.FindPeriod(false)
	vfReach("post")
	vfAssert("findperiod/clean-run-finds-ds", gd == r.d)
	vfAssert("findperiod/clean-run-finds-ps", gp == r.p)
}

// C16(d,e): a receiver configured (d0,p0) listening to a sender (d1,p1) adopts exactly the
// sender's ratio after an uninterrupted run, is left in a consistent state, and recovers a
// loss in the following group — at every position of the sequence space.
func vfH_C16_adopt_then_recover() {
	pairs := [][2]vfRatio{{{2, 1}, {3, 2}}, {{1, 1}, {2, 2}}, {{3, 2}, {2, 1}}, {{2, 2}, {1, 1}}}
	pr := pairs[vfPick("pair", 0, len(pairs)-1)]
	rcv, snd := pr[0], pr[1]
	S1 := uint32(snd.d + snd.p)
	dec := newFECDecoder(rcv.d, rcv.p)
	enc := newFECEncoder(snd.d, snd.p, 0)
	var base uint32
	switch vfPick("position", 0, 2) {
	case 0:
		base = 0
	case 1:
		base = (1000000 / S1) * S1
	default:
		base = (0x80000000 / S1) * S1
	}
	enc.next = base
	enc.tsLatestPacket = vfRecentMilli("tsLatest")
	// the receiver has been following the stream in its own units
	dec.newestShardId = base / uint32(rcv.d+rcv.p)
	ng := 4
	sent := vfEncodeGroups(enc, ng, []int{1, 2})
	if len(sent) != ng*int(S1) {
		vfStop() // parity skipped somewhere: not the uninterrupted run this harness is about
	}
	vfReach("encoded")
	feed := func(s vfSent) [][]byte {
		in := make([]byte, len(s.pkt))
		copy(in, s.pkt)
		return vfFilterRecovered(dec.decode(in))
	}
	for _, s := range sent {
		if s.group < ng-1 {
			// what a mismatched decoder reconstructs before it converges is arbitrary bytes (the
			// codec stub returns unconstrained data for shards that are not a code word); their
			// harmlessness is KCP.Input's filtering of arbitrary bytes, i.e. C05, not asserted here
			feed(s)
		}
	}
	vfReach("run-fed")
	vfAssert("c16/adopts-sender-ratio", vfAnd(dec.dataShards == snd.d, dec.parityShards == snd.p))
	vfAssert("c16/tuning-flag-cleared", !dec.shouldTune)
	vfAssert("c16/shard-size-consistent", vfAnd(dec.shardSize == int(S1), dec.paws == 0xffffffff/S1*S1))
	vfAssert("c16/caches-resized", vfAnd(len(dec.decodeCache) == int(S1), len(dec.flagCache) == int(S1)))
	// last group: first data packet lost, everything else arrives
	var lost vfSent
	recovered := false
	for _, s := range sent {
		if s.group != ng-1 {
			continue
		}
		if s.data && s.idx == 0 {
			lost = s
			continue
		}
		for _, rp := range feed(s) {
			if len(rp) == len(lost.orig) && vfConcreteBool(vfBytesEq(rp, lost.orig)) {
				recovered = true
			}
		}
	}
	vfReach("done")
	vfAssert("c16/recovers-losses-after-convergence", recovered)
}

// C16(c), large ratios: clean windows of 2S+2 packets for the ratios the README
// mentions and the extremes d+p = 255, at the boundary phases, with a fresh and a wrapped ring.
func vfH_C16_findperiod_clean_large() {
	r := []vfRatio{{10, 3}, {20, 10}, {128, 127}, {254, 1}, {1, 254}}[vfPick("sender", 0, 4)]
	S := r.d + r.p
	ph := []int{0, 1, r.d - 1, r.d % S, S - 1}[vfPick("phase", 0, 4)]
	s0 := vfU32("s0")
	var tune autoTune
	n := 2*S + 2
	for k := 0; k < n; k++ {
		tune.Sample((ph+k)%S < r.d, s0+uint32(k))
	}
	vfReach("sampled")
	gd := tune.FindPeriod(true)
	gp := tune.FindPeriod(false)
	vfReach("post")
	if n <= maxAutoTuneSamples {
		vfAssert("findperiod/clean-run-finds-ds", gd == r.d)
		vfAssert("findperiod/clean-run-finds-ps", gp == r.p)
	} else {
		// the 258-entry window cannot hold two full cycles of d+p = 255: still never a wrong answer
		vfAssert("findperiod/data-period-is-ds-or-unknown", gd == -1 || gd == r.d)
		vfAssert("findperiod/parity-period-is-ps-or-unknown", gp == -1 || gp == r.p)
	}
}

// C10/C09: a parity packet is exactly as long as the longest data packet of ITS OWN group —
// whatever the previous group looked like and whether or not the previous group's parity was
// skipped (non-continuous data). A stale length carried over from an earlier group would put
// parity on the wire that is longer than anything the current configuration allows.
func vfH_C10_parity_length() {
	r := vfPickRatio("ratio")
	enc := newFECEncoder(r.d, r.p, 0)
	enc.next = vfGroupBase(r.d + r.p)
	enc.tsLatestPacket = vfRecentMilli("tsLatest")
	// group 0 holds long packets, group 1 short ones (and the other way round)
	lens := [][]int{{5, 5, 5, 5, 1, 2, 1, 1}, {1, 1, 1, 1, 4, 2, 3, 1}}[vfPick("lens", 0, 1)]
	var sent []vfSent
	for g := 0; g < 2; g++ {
		for i := 0; i < r.d; i++ {
			l := lens[g*4+i%4]
			b := make([]byte, fecHeaderSizePlus2+l)
			copy(b[fecHeaderSizePlus2:], vfBytes(vfName(vfName("pay", g)+"_", i), l))
			vfBeforeEncode()
			ps := enc.encode(b, maxFECEncodeLatency)
			sent = append(sent, vfSent{pkt: vfCopy(b), data: true, idx: i, group: g})
			for k := range ps {
				sent = append(sent, vfSent{pkt: vfCopy(ps[k]), data: false, idx: r.d + k, group: g})
			}
		}
	}
	vfReach("encoded")
	nparity := 0
	for g := 0; g < 2; g++ {
		longest := 0
		for _, s := range sent {
			if s.group == g && s.data && len(s.pkt) > longest {
				longest = len(s.pkt)
			}
		}
		for _, s := range sent {
			if s.group == g && !s.data {
				nparity++
				vfAssert("c10/parity-as-long-as-the-longest-data-packet-of-its-group", len(s.pkt) == longest)
			}
		}
	}
	vfAssert("c10/parity-count", nparity == 0 || nparity == r.p || nparity == 2*r.p)
}

// C09/C12: one step of the real encoder from an ARBITRARY position in the sequence-id space
// (symbolic group index, so the wrap point, 2^31 and every other position are one query):
// a data packet carries the next id, type 0xF1 and size = payload+2, its id sits at a data
// position of the d+p cycle; when it completes a group the parity packets (if the group was
// continuous) carry the following ids at parity positions with type 0xF2; either way the next
// id is the first id of the next group modulo the wrap value, so ids never repeat within a wrap
// period and types always match positions.
func vfH_C09_encoder_step() {
	r := vfPickRatio("ratio")
	S := uint32(r.d + r.p)
	enc := newFECEncoder(r.d, r.p, 0)
	paws := enc.paws
	vfAssert("enc/paws-is-a-multiple-of-the-group-size", paws%S == 0 && paws > 0xffffffff-S)
	cnt := vfPick("collected", 0, r.d-1)
	g := vfU32("group")
	vfAssume(g < paws/S)
	enc.next = g*S + uint32(cnt)
	enc.shardCount = cnt
	for i := 0; i < cnt; i++ {
		l := fecHeaderSizePlus2 + 1 + i
		enc.shardCache[i] = enc.shardCache[i][:l]
		if l > enc.maxSize {
			enc.maxSize = l
		}
	}
	enc.tsLatestPacket = vfRecentMilli("tsLatest")
	l := vfPick("len", 1, 3)
	b := make([]byte, fecHeaderSizePlus2+l)
	copy(b[fecHeaderSizePlus2:], vfBytes("pay", l))
	vfReach("pre")
	vfBeforeEncode()
	ps := enc.encode(b, maxFECEncodeLatency)
	vfReach("post")
	id := binary.LittleEndian.Uint32(b)
	vfAssert("enc/data-carries-the-next-id", id == g*S+uint32(cnt))
	vfAssert("enc/data-type-and-size", vfAnd(binary.LittleEndian.Uint16(b[4:]) == typeData, int(binary.LittleEndian.Uint16(b[6:])) == l+2))
	vfAssert("enc/data-id-at-a-data-position", id%S < uint32(r.d))
	vfAssert("enc/id-below-the-wrap-value", id < paws)
	nextGroup := (g + 1) * S
	if vfConcreteBool(nextGroup == paws) {
		nextGroup = 0
	}
	if cnt == r.d-1 {
		vfAssert("enc/parity-all-or-none", len(ps) == 0 || len(ps) == r.p)
		for k := range ps {
			pid := binary.LittleEndian.Uint32(ps[k])
			vfAssert("enc/parity-ids-follow-the-data", pid == g*S+uint32(r.d+k))
			vfAssert("enc/parity-type-at-a-parity-position", vfAnd(binary.LittleEndian.Uint16(ps[k][4:]) == typeParity, vfAnd(pid%S >= uint32(r.d), pid < paws)))
		}
		vfAssert("enc/next-id-starts-the-next-group-modulo-the-wrap", enc.next == nextGroup)
	} else {
		vfAssert("enc/no-parity-inside-a-group", len(ps) == 0)
		vfAssert("enc/next-id-is-the-successor", enc.next == id+1)
	}
}

// C12 (FEC half) as a multi-group scenario across the id wrap and across 2^31: a decoder that has
// tracked the stream follows ten consecutive groups of the real encoder starting two groups
// before the boundary; one data packet of every group is lost. Throughout: every group recovers
// its lost packet as soon as d of its packets arrived, the decoder never holds more than the few
// most recent groups, and it never suspects a mismatch — exactly as at position 0.
func vfH_C12_fec_across_boundaries() {
	r := []vfRatio{{2, 1}, {1, 1}, {3, 2}}[vfPick("ratio", 0, 2)]
	S := uint32(r.d + r.p)
	enc := newFECEncoder(r.d, r.p, 0)
	dec := newFECDecoder(r.d, r.p)
	paws := enc.paws
	var base uint32
	switch vfPick("boundary", 0, 2) {
	case 0:
		base = 0 // reference: far from any boundary
	case 1:
		base = paws - 2*S // crosses the wrap value
	default:
		base = (0x80000000/S)*S - 2*S // crosses 2^31
	}
	enc.next = base
	if base != 0 {
		dec.newestShardId = base/S - 1
	}
	enc.tsLatestPacket = vfRecentMilli("tsLatest")
	lost := vfPick("lost", 0, r.d-1)
	const G = 10
	recovered := 0
	skipped := false
	for g := 0; g < G && !skipped; g++ {
		var grp []vfSent
		for i := 0; i < r.d; i++ {
			b := make([]byte, fecHeaderSizePlus2+2)
			pay := vfBytes(vfName(vfName("pay", g)+"_", i), 2)
			copy(b[fecHeaderSizePlus2:], pay)
			vfBeforeEncode()
			ps := enc.encode(b, maxFECEncodeLatency)
			grp = append(grp, vfSent{pkt: vfCopy(b), data: true, idx: i, orig: pay})
			for k := range ps {
				grp = append(grp, vfSent{pkt: vfCopy(ps[k]), data: false, idx: r.d + k})
			}
		}
		if len(grp) != int(S) {
			skipped = true // the sender judged the data non-continuous: that case is vfH_C07_skip_parity
			break
		}
		got := 0
		for _, s := range grp {
			if s.data && s.idx == lost {
				continue
			}
			rec := vfFilterRecovered(dec.decode(vfCopy(s.pkt)))
			got++
			for _, rp := range rec {
				o := grp[lost].orig
				vfAssert("c12/fec/recovered-packet-is-the-lost-one", len(rp) == len(o) && vfConcreteBool(vfBytesEq(rp, o)))
				recovered++
			}
			if got == r.d {
				vfAssert("c12/fec/lost-packet-recovered-once-d-arrived", recovered >= g+1)
			}
		}
		vfAssert("c12/fec/holds-only-the-most-recent-groups", len(dec.shardSet) <= maxShardSets+2)
		vfAssert("c12/fec/never-suspects-a-mismatch", !dec.shouldTune)
	}
	vfReach("done")
	if !skipped {
		vfAssert("c12/fec/every-group-recovered", recovered >= G)
	}
}

// C16, the quantitative clause at its extreme: a receiver configured differently from a sender
// whose group is as large as allowed (d+p = 255, and smaller ones) adopts the sender's ratio
// within an uninterrupted run of 258+2(d+p) packets from any phase of the cycle, and decoding
// is no longer suspended. The packets are header-only (sequence id, type, size): the detector
// looks at nothing else. The sample ring must hold a whole cycle plus both edges (257 of its 258
// entries when d+p = 255), so this is where an off-by-a-few in its size shows.
func vfH_C16_converges_within_bound() {
	vfStepBudget(40000000)
	snd := []vfRatio{{254, 1}, {128, 127}, {1, 254}, {250, 5}, {10, 3}, {3, 1}}[vfPick("sender", 0, 5)]
	rcv := []vfRatio{{10, 3}, {2, 1}}[vfPick("receiver", 0, 1)]
	if snd == rcv {
		rcv = vfRatio{4, 4}
	}
	S := snd.d + snd.p
	dec := newFECDecoder(rcv.d, rcv.p)
	starts := []uint32{0, 0x80000000 - 300}
	phases := []int{0, snd.d - 1, snd.d % S, S - 1}
	if vfTier() > 0 {
		starts = append(starts, 1000003, 0xfffffe00)
		phases = append(phases, 1, S/2, S/3)
	}
	start := starts[vfPick("start", 0, len(starts)-1)]
	start -= start % uint32(S)
	ph := phases[vfPick("phase", 0, len(phases)-1)]
	n := 258 + 2*S
	adoptedAt := -1
	for k := 0; k < n; k++ {
		id := start + uint32(ph+k)
		pkt := make([]byte, fecHeaderSizePlus2+1)
		binary.LittleEndian.PutUint32(pkt, id)
		if int(id%uint32(S)) < snd.d {
			binary.LittleEndian.PutUint16(pkt[4:], typeData)
		} else {
			binary.LittleEndian.PutUint16(pkt[4:], typeParity)
		}
		binary.LittleEndian.PutUint16(pkt[6:], 3)
		dec.decode(pkt)
		if adoptedAt < 0 && dec.dataShards == snd.d && dec.parityShards == snd.p && !dec.shouldTune {
			adoptedAt = k + 1
		}
	}
	vfReach("fed")
	vfAssert("c16/adopts-the-sender's-ratio-within-258+2(d+p)-packets", adoptedAt > 0)
	vfAssert("c16/stays-with-the-sender's-ratio", dec.dataShards == snd.d && dec.parityShards == snd.p && !dec.shouldTune)
}
