package kcp

// Native replay of solver models: overlaid as /repo/zz_vf_vf_replay_test.go
// together with the harness files, a generated registry (vfRegistry) and a copy
// of kcp.go whose currentMs() reads the harness clock. For every model file
// listed in $VF_MODELS the harness is executed against the real build and one
// "VFRESULT {json}" line is printed.

import (
	"bufio"
	"encoding/json"
	"fmt"
	"os"
	"runtime/debug"
	"strings"
	"testing"
)

type vfNativeResult struct {
	File        string            `json:"file"`
	Harness     string            `json:"harness"`
	Failures    []string          `json:"failures"`
	AssumeFails []string          `json:"assume_fails"`
	Reached     []string          `json:"reached"`
	Observes    map[string]uint64 `json:"observes"`
	Panic       string            `json:"panic"`
	Stack       string            `json:"stack"`
	Error       string            `json:"error"`
}

func vfRunOne(path string) (res vfNativeResult) {
	res.File = path
	if err := vfLoadModel(path); err != nil {
		res.Error = err.Error()
		return
	}
	res.Harness = vfModel.Harness
	h, ok := vfRegistry[vfModel.Harness]
	if !ok {
		res.Error = "unknown harness " + vfModel.Harness
		return
	}
	vfNativeSetup()
	defer func() {
		if r := recover(); r != nil {
			switch r.(type) {
			case vfAssumeAbort, vfStopAbort:
			default:
				res.Panic = fmt.Sprint(r)
				st := string(debug.Stack())
				if len(st) > 3000 {
					st = st[:3000]
				}
				res.Stack = st
			}
		}
		res.Failures = vfFailures
		res.AssumeFails = vfAssumeFails
		res.Reached = vfReached
		res.Observes = vfObserved
	}()
	h()
	return
}

func TestVfReplay(t *testing.T) {
	list := os.Getenv("VF_MODELS")
	if list == "" {
		t.Skip("VF_MODELS not set")
	}
	f, err := os.Open(list)
	if err != nil {
		t.Fatal(err)
	}
	defer f.Close()
	sc := bufio.NewScanner(f)
	for sc.Scan() {
		p := strings.TrimSpace(sc.Text())
		if p == "" {
			continue
		}
		r := vfRunOne(p)
		b, _ := json.Marshal(r)
		fmt.Printf("VFRESULT %s\n", b)
	}
}
