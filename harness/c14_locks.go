package kcp

// C14 — lock discipline (a sufficient condition for race freedom, DESIGN.md §4 C14): every
// entry point is run from an established session with symbolic arguments while the executor
// monitors each load/store on every feasible path:
//   G1 protocol core, receive buffer, FEC decoder, writeDelay/ackNoDelay: only under s.mu
//   G2 Listener.sessions under sessionLock (R for reads, W for writes); blockCrypt scratch under
//      encMu/decMu; TimedSched.prependTasks under prependLock
//   G3 deadlines, rate limiter, OOB callback, socket errors, SNMP counters: atomics only
//   G4 fields fixed at construction (conv, headerSize, remote, conn, block, l, fecEncoder): never written
//   G5 the FEC encoder's state: touched only inside postProcess (goroutine confinement)

import (
	"crypto/cipher"
	"net"
	"time"
)

func vfGuard(name string, lock any, roots ...any)   {}
func vfGuardRW(name string, lock any, roots ...any) {}
func vfGuardNoWrite(name string, roots ...any)      {}
func vfGuardAtomic(name string, roots ...any)       {}
func vfGuardStop(objs ...any)                       {}
func vfGuardConfined(name, owner string, roots ...any) {}

// vfGuardField: like vfGuard, but the lock is named by (struct pointer, field name) so that the
// harness still compiles when a change removes the lock; the guarded data is then reported on
// every access.
func vfGuardField(name string, structPtr any, lockField string, roots ...any)   {}
func vfGuardFieldRW(name string, structPtr any, lockField string, roots ...any) {}
func vfMonitorOn()                                  {}
func vfMonitorOff()                                 {}

func vfGuardSession(s *UDPSession) {
	// the core's identity fields are fixed at construction (G4) and may be read anywhere
	vfGuardNoWrite("kcp.conv", &s.kcp.conv)
	vfGuardStop(&s.kcp.conv, &s.kcp.output)
	vfGuardField("s.mu", s, "mu", s.kcp, &s.recvbuf, &s.bufptr, &s.writeDelay, &s.ackNoDelay)
	if s.fecDecoder != nil {
		vfGuardField("s.mu", s, "mu", s.fecDecoder)
	}
	vfGuardNoWrite("session-constants", &s.conn, &s.ownConn, &s.kcp, &s.l, &s.block, &s.remote, &s.headerSize, &s.fecEncoder, &s.die, &s.chReadEvent, &s.chWriteEvent, &s.chPostProcessing)
	vfGuardAtomic("atomics", &s.rd, &s.wd, &s.socketReadError, &s.socketWriteError, &s.rateLimiter, &s.callbackForOOB)
	if bc, ok := s.block.(*blockCrypt); ok {
		vfGuardField("encMu", bc, "encMu", &bc.encbuf)
		vfGuardField("decMu", bc, "decMu", &bc.decbuf)
	}
	// G5 the FEC encoder has no lock: it is confined to the post-processing goroutine
	if s.fecEncoder != nil {
		vfGuardConfined("fecEncoder(confined to postProcess)", "postProcess", s.fecEncoder)
	}
}

// one entry point of UDPSession per path
func vfH_C14_session_methods() {
	ck := []int{vfCipherNil, vfCipherBlock}[vfPick("cipher", 0, 1)]
	d, p := vfPickFEC()
	pr := vfConnect(ck, d, p, 1)
	s := []*UDPSession{pr.client, pr.srv}[vfPick("side", 0, 1)]
	vfAssume(s != nil)
	vfGuardSession(s)
	vfGuardFieldRW("sessionLock", pr.l, "sessionLock", &pr.l.sessions)
	vfGuardAtomic("snmp", DefaultSnmp)
	vfGuardField("prependLock", SystemTimedSched, "prependLock", &SystemTimedSched.prependTasks)
	vfReach("guarded")
	vfMonitorOn()
	when := time.Now().Add(time.Duration(vfInt("dl")))
	switch vfPick("entry", 0, 29) {
	case 0:
		s.Read(make([]byte, vfPick("rlen", 1, 4)))
	case 1:
		s.Write(vfBytes("w", vfPick("wlen", 0, 4)))
	case 2:
		s.WriteBuffers([][]byte{vfBytes("w1", 2), vfBytes("w2", 1)})
	case 3:
		s.Close()
	case 4:
		s.SetDeadline(when)
	case 5:
		s.SetReadDeadline(when)
	case 6:
		s.SetWriteDeadline(when)
	case 7:
		s.SetWriteDelay(vfBool("b"))
	case 8:
		s.SetWindowSize(vfInt("a"), vfInt("b2"))
	case 9:
		s.SetMtu(vfInt("a"))
	case 10:
		s.SetACKNoDelay(vfBool("b"))
	case 11:
		s.SetNoDelay(vfInt("a"), vfInt("b2"), vfInt("c"), vfInt("d"))
	case 12:
		s.SetDSCP(vfIntRange("a", 0, 63))
	case 13:
		s.SetReadBuffer(vfInt("a"))
	case 14:
		s.SetWriteBuffer(vfInt("a"))
	case 15:
		s.SetLogger(KCPLogType(vfU32("mask")), func(string, ...any) {})
	case 16:
		s.Control(func(net.PacketConn) error { return nil })
	case 17:
		s.GetConv()
	case 18:
		s.GetRTO()
	case 19:
		s.GetSRTT()
	case 20:
		s.GetSRTTVar()
	case 21:
		s.SetOOBHandler(func([]byte) {})
	case 22:
		s.GetOOBMaxSize()
	case 23:
		s.SendOOB(vfBytes("oob", vfPick("olen", 0, 3)))
	case 24:
		s.LocalAddr()
		s.RemoteAddr()
	case 25:
		// the library's own goroutine bodies
		s.update()
	case 26:
		s.Write(vfBytes("w", 2))
		vfRunUntilBlocked(s.postProcess)
	case 27:
		dg := vfBytes("dg", s.headerSize-fecHeaderSizePlus2*min(d, 1)+[]int{12, 24, 30}[vfPick("dg_n", 0, 2)])
		s.packetInput(dg)
	case 28:
		s.SetRateLimit(vfU32("rate"))
	case 29:
		// consecutive short reads: the second and third are served from the left-over bytes of
		// the first (a different branch of Read than a fresh message)
		s.Read(make([]byte, 1))
		s.Read(make([]byte, 1))
		s.Read(make([]byte, 4))
	}
	vfMonitorOff()
	vfReach("done")
}

func vfH_C14_listener_methods() {
	ck := []int{vfCipherNil, vfCipherBlock}[vfPick("cipher", 0, 1)]
	d, p := vfPickFEC()
	pr := vfConnect(ck, d, p, 1)
	vfAssume(pr.srv != nil)
	vfGuardSession(pr.srv)
	vfGuardFieldRW("sessionLock", pr.l, "sessionLock", &pr.l.sessions)
	vfGuardNoWrite("listener-constants", &pr.l.block, &pr.l.dataShards, &pr.l.parityShards, &pr.l.conn, &pr.l.ownConn, &pr.l.chAccepts, &pr.l.die)
	vfGuardAtomic("listener-atomics", &pr.l.rd, &pr.l.socketReadError)
	vfGuardAtomic("snmp", DefaultSnmp)
	if bc, ok := pr.l.block.(*blockCrypt); ok {
		vfGuardField("encMu", bc, "encMu", &bc.encbuf)
		vfGuardField("decMu", bc, "decMu", &bc.decbuf)
	}
	vfReach("guarded")
	l := pr.l
	// put the accepted session back so that Accept has something to return
	l.chAccepts <- pr.srv
	vfMonitorOn()
	when := time.Now().Add(time.Duration(vfInt("dl")))
	switch vfPick("entry", 0, 10) {
	case 0:
		l.AcceptKCP()
	case 1:
		l.Close()
	case 2:
		l.SetDeadline(when)
	case 3:
		l.SetReadDeadline(when)
	case 4:
		l.SetWriteDeadline(when)
	case 5:
		l.Addr()
	case 6:
		l.Control(func(net.PacketConn) error { return nil })
	case 7:
		l.SetReadBuffer(vfInt("a"))
		l.SetWriteBuffer(vfInt("a"))
		l.SetDSCP(vfIntRange("a2", 0, 63))
	case 8:
		dg := vfBytes("dg", pr.srv.headerSize-fecHeaderSizePlus2*min(d, 1)+[]int{12, 24, 30}[vfPick("dg_n", 0, 2)])
		l.packetInput(dg, []vfAddr{vfClientAddr, vfOtherAddr}[vfPick("from", 0, 1)])
	case 9:
		pr.srv.Close() // goes through Listener.closeSession
	case 10:
		l.notifyReadError(vfErrTooFewShards)
	}
	vfMonitorOff()
	vfReach("done")
}

// TimedSched.Put: the shared task list only under its lock
func vfH_C14_timedsched_put() {
	ts := vfInertSched()
	vfGuardField("prependLock", ts, "prependLock", &ts.prependTasks)
	vfReach("guarded")
	vfMonitorOn()
	ts.Put(func() {}, time.Now().Add(time.Duration(vfInt("d"))))
	ts.Put(func() {}, time.Now())
	vfMonitorOff()
	vfReach("done")
	vfAssert("put/queued", len(ts.prependTasks) == 2)
}

func vfNewCipherBlock() cipher.Block { return vfNewBlock(16) }

// the process-wide AES entropy source: seed, counter and cipher only under its mutex, also
// across the re-key that happens every 2^24 reads
func vfH_C14_entropy_aes() {
	r := &rngAES{block: vfNewBlock(16)}
	r.count = []uint64{0, reseedInterval - 1, reseedInterval}[vfPick("count", 0, 2)]
	vfGuardField("rngAES.mutex", r, "mutex", &r.seed, &r.count, &r.block)
	vfReach("guarded")
	p := make([]byte, []int{0, 5, 16, 40}[vfPick("len", 0, 3)])
	vfMonitorOn()
	n, err := r.Read(p)
	vfMonitorOff()
	vfReach("done")
	vfAssert("entropy/read-reports-length", vfAnd(err == nil, n == min(len(p), 16)))
}

// the process-wide counters are shared by every session and read by monitoring code while
// traffic flows: their reader/reset API touches them with atomics only
func vfH_C14_snmp_methods() {
	vfGuardAtomic("snmp", DefaultSnmp)
	vfReach("guarded")
	vfMonitorOn()
	switch vfPick("entry", 0, 2) {
	case 0:
		c := DefaultSnmp.Copy()
		vfMonitorOff()
		vfAssert("snmp/copy-is-a-new-object", c != DefaultSnmp)
	case 1:
		DefaultSnmp.Reset()
	case 2:
		sl := DefaultSnmp.ToSlice()
		vfMonitorOff()
		vfAssert("snmp/slice-matches-header", len(sl) == len(DefaultSnmp.Header()))
	}
	vfMonitorOff()
	vfReach("done")
}
