package kcp

// Session/listener harnesses: C06 (integrity failure has no effect), C05 at
// session level (arbitrary bytes), C11 (isolation), C19 (OOB), C09/C10 at
// session level (frame layout and sizes on the wire).
//
// Pre-states are built through the public path: a real client session writes,
// its real postProcess puts datagrams on a stub socket, a real Listener takes
// them from there and creates/accepts the server session.

import (
	"encoding/binary"
	"hash/crc32"
)

type vfPair struct {
	client *UDPSession
	cconn  *vfConn
	l      *Listener
	lconn  *vfConn
	srv    *UDPSession
	ck     int
	d, p   int
}

const (
	vfClientAddr = vfAddr("client:1000")
	vfServerAddr = vfAddr("server:2000")
	vfOtherAddr  = vfAddr("other:3000")
)

// vfCipherKinds: nil, the CFB-class path, AEAD (thorough adds the real blockCrypt over the UF cipher).
func vfPickCipher() int {
	if vfTier() > 0 {
		return vfPick("cipher", 0, 3)
	}
	return []int{vfCipherNil, vfCipherNone, vfCipherAEAD}[vfPick("cipher", 0, 2)]
}

func vfPickFEC() (int, int) {
	if vfPick("fec", 0, 1) == 1 {
		return 2, 1
	}
	return 0, 0
}

func vfCopy(b []byte) []byte {
	c := make([]byte, len(b))
	copy(c, b)
	return c
}

// vfConnect: client writes nWrites small messages; every datagram reaches the listener.
func vfConnect(ck, d, p int, nWrites int) *vfPair {
	pr := &vfPair{ck: ck, d: d, p: p}
	pr.cconn, pr.lconn = vfNewConn(), vfNewConn()
	pr.client = vfNewSession(vfU32("conv"), d, p, nil, pr.cconn, vfServerAddr, vfMakeCipher(ck))
	pr.l, _ = serveConn(vfMakeCipher(ck), d, p, pr.lconn, false)
	vfSetClock(vfU32("t0"))
	// congestion control off so that every write goes out at once (cwnd starts at 0 otherwise)
	pr.client.SetNoDelay(0, 100, 0, 1)
	for i := 0; i < nWrites; i++ {
		n, err := pr.client.Write(vfBytes(vfName("msg", i), 3))
		vfAssert("connect/write-accepted", vfAnd(n == 3, err == nil))
	}
	vfDrainTx(pr.client)
	for _, w := range pr.cconn.writes {
		pr.l.packetInput(vfCopy(w.data), vfClientAddr)
	}
	if len(pr.l.chAccepts) > 0 {
		pr.srv = <-pr.l.chAccepts
	}
	return pr
}

// vfIntegrityFails states, for a datagram as it arrives, that the configured check rejects it.
func vfIntegrityFails(ck int, dg []byte) bool {
	switch ck {
	case vfCipherNone, vfCipherBlock:
		if len(dg) < cryptHeaderSize {
			return true
		}
		tmp := vfCopy(dg)
		vfMakeCipher(ck).Decrypt(tmp, tmp)
		return crc32.ChecksumIEEE(tmp[cryptHeaderSize:]) != binary.LittleEndian.Uint32(tmp[nonceSize:])
	case vfCipherAEAD:
		if len(dg) < 12+16 {
			return true
		}
		_, ok := vfAEADOpen(nil, dg[:12], dg[12:])
		return !ok
	}
	return false
}

func vfDgLen() int {
	if vfTier() > 0 {
		return vfPick("dg_n", 0, 64)
	}
	return []int{0, 1, 11, 12, 19, 20, 27, 28, 31, 32, 44, 52, 60, 64}[vfPick("dg_n", 0, 13)]
}

// C06 on the listener: a datagram failing the check, from the known peer or from a new
// address, leaves the listener, its table, the accept queue and every session untouched.
func vfH_C06_listener() {
	ck := []int{vfCipherNone, vfCipherAEAD}[vfPick("cipher", 0, 1)]
	if vfTier() > 0 {
		ck = []int{vfCipherNone, vfCipherAEAD, vfCipherBlock}[vfPick("cipher", 0, 2)]
	}
	d, p := vfPickFEC()
	pr := vfConnect(ck, d, p, 1)
	vfAssert("connect/one-session-accepted", vfAnd(pr.srv != nil, len(pr.l.sessions) == 1))
	vfReach("connected")
	dg := vfBytes("dg", vfDgLen())
	vfAssume(vfIntegrityFails(ck, dg))
	from := []vfAddr{vfClientAddr, vfOtherAddr}[vfPick("from", 0, 1)]
	errs0 := DefaultSnmp.InCsumErrors
	nsess, nacc := len(pr.l.sessions), len(pr.l.chAccepts)
	vfJournalStart(pr.l, pr.srv)
	pr.l.packetInput(dg, from)
	vfReach("post")
	var scratch []any
	if bc, ok := pr.l.block.(*blockCrypt); ok {
		scratch = []any{bc.decbuf, bc.encbuf}
	}
	vfAssert("c06/listener-untouched", !vfWritten(pr.l, scratch...))
	vfAssert("c06/session-untouched", !vfWritten(pr.srv, append(scratch, pr.l)...))
	vfAssert("c06/no-session-created", vfAnd(len(pr.l.sessions) == nsess, len(pr.l.chAccepts) == nacc))
	vfAssert("c06/only-the-error-counter-moves", DefaultSnmp.InCsumErrors-errs0 <= 1)
}

// C06 on a dialled session.
func vfH_C06_client() {
	ck := []int{vfCipherNone, vfCipherAEAD}[vfPick("cipher", 0, 1)]
	if vfTier() > 0 {
		ck = []int{vfCipherNone, vfCipherAEAD, vfCipherBlock}[vfPick("cipher", 0, 2)]
	}
	d, p := vfPickFEC()
	pr := vfConnect(ck, d, p, 1)
	vfReach("connected")
	dg := vfBytes("dg", vfDgLen())
	vfAssume(vfIntegrityFails(ck, dg))
	vfJournalStart(pr.client)
	pr.client.packetInput(dg)
	vfReach("post")
	var scratch []any
	if bc, ok := pr.client.block.(*blockCrypt); ok {
		scratch = []any{bc.decbuf, bc.encbuf}
	}
	vfAssert("c06/session-untouched", !vfWritten(pr.client, scratch...))
	vfAssert("c06/no-wakeup-token", vfAnd(len(pr.client.chReadEvent) == 0, len(pr.client.chWriteEvent) <= 1))
}

// The converse: the sender computes the CRC over exactly the bytes after the CRC field, for
// data and parity alike, so that a genuine datagram passes the receiver's check.
func vfH_C06_genuine_passes() {
	ck := []int{vfCipherNone, vfCipherAEAD}[vfPick("cipher", 0, 1)]
	if vfTier() > 0 {
		ck = []int{vfCipherNone, vfCipherAEAD, vfCipherBlock}[vfPick("cipher", 0, 2)]
	}
	d, p := vfPickFEC()
	pr := vfConnect(ck, d, p, 2)
	vfReach("connected")
	if d > 0 {
		// two data packets complete a (2,1) group: one parity packet follows unless the sender
		// judged the data non-continuous
		vfAssert("genuine/datagrams-emitted", vfOr(len(pr.cconn.writes) == 3, len(pr.cconn.writes) == 2))
	} else {
		vfAssert("genuine/datagrams-emitted", len(pr.cconn.writes) == 2)
	}
	for _, w := range pr.cconn.writes {
		vfAssert("genuine/every-emitted-datagram-passes-the-check", !vfIntegrityFails(ck, w.data))
	}
	vfAssert("genuine/session-accepted", pr.srv != nil)
	vfAssert("genuine/no-checksum-errors", DefaultSnmp.InCsumErrors == 0)
}

// C05 at session level: arbitrary bytes (any configuration, before and after the integrity
// gate) into the listener and the dialled session: no panic on any path.
func vfH_C05_session_bytes() {
	var ck int
	if vfTier() == 0 {
		// quick: no cipher and the CFB-class path; what AEAD lets through is C06's subject
		ck = []int{vfCipherNil, vfCipherNone}[vfPick("cipher", 0, 1)]
	} else {
		ck = vfPick("cipher", 0, 3)
	}
	d, p := vfPickFEC()
	pr := vfConnect(ck, d, p, 1)
	vfReach("connected")
	var n int
	if vfTier() == 0 {
		n = pr.client.headerSize - fecHeaderSizePlus2*min(d, 1) + vfPick("dg_n", 0, 34)
	} else {
		n = vfPick("dg_n", 0, 64)
	}
	dg := vfBytes("dg", n)
	if vfTier() == 0 {
		// quick: the bytes that would reach KCP.Input carry a foreign conversation id, so that the
		// session/listener code in front of the core is what gets explored (the core's own handling
		// of arbitrary bytes is vfH_C05_input_big); thorough drops this assumption
		hs := pr.client.headerSize
		if d > 0 {
			hs -= fecHeaderSizePlus2
		}
		for _, off := range []int{hs, hs + fecHeaderSizePlus2} {
			if off+4 <= len(dg) {
				vfAssume(binary.LittleEndian.Uint32(dg[off:]) != pr.client.kcp.conv)
			}
		}
	}
	switch vfPick("target", 0, 2) {
	case 0:
		pr.l.packetInput(dg, vfClientAddr)
	case 1:
		nsess := len(pr.l.sessions)
		pr.l.packetInput(dg, vfOtherAddr)
		vfAssert("sessbytes/at-most-one-new-session", len(pr.l.sessions) <= nsess+1)
	default:
		pr.client.packetInput(dg)
	}
	vfReach("post")
	if pr.srv != nil {
		vfCheckWindows("sessbytes/srv", pr.srv.kcp)
	}
	vfCheckWindows("sessbytes/client", pr.client.kcp)
}
