package kcp

// C13 — blocked Read / Write / Accept always wake. Goroutine mode: real UDPSession / Listener
// over stub sockets, 1-2 goroutines blocked in the real Read / WriteBuffers / AcceptKCP, the
// main goroutine performs a short symbolic sequence of events, each followed by running the
// system to quiescence; virtual time.

import (
	"net"
	"time"
)

type vfCallResult struct {
	done bool
	n    int
	err  error
	at   int64
}

func vfIsTimeout(err error) bool {
	ne, ok := err.(net.Error)
	return ok && ne.Timeout()
}

// a PUSH carrying n bytes for the next expected sequence number of s
func vfNextPush(s *UDPSession, name string, n int) []byte {
	var f vfDatagramFields
	f.conv, f.cmd, f.wnd = s.kcp.conv, IKCP_CMD_PUSH, 32
	f.sn, f.una = s.kcp.rcv_nxt, s.kcp.snd_una
	f.ln, f.payload = n, vfBytes(name, n)
	return vfEncodeDatagram(f)
}

func vfH_C13_read() {
	conn := vfNewConn()
	s := vfNewSession(vfU32("conv"), 0, 0, nil, conn, vfServerAddr, nil)
	vfSetClock(vfU32("t0"))
	vfGoroutineMode(1, false)
	var deadline time.Time // the deadline currently in force (zero: none)
	var earliest time.Time // the earliest deadline that was ever in force
	note := func(d time.Time) {
		if !d.IsZero() && (earliest.IsZero() || d.Before(earliest)) {
			earliest = d
		}
	}
	if vfPick("deadline-before-blocking", 0, 1) == 1 {
		deadline = time.Now().Add(10 * time.Millisecond)
		s.SetReadDeadline(deadline)
		note(deadline)
	}
	nr := vfPick("readers", 1, 2)
	res := make([]vfCallResult, nr)
	for i := 0; i < nr; i++ {
		i := i
		go func() {
			buf := make([]byte, 2)
			n, err := s.Read(buf)
			res[i] = vfCallResult{true, n, err, vfNowNs()}
		}()
	}
	vfQuiesce(0)
	vfAssert("c13/read-blocks-while-nothing-to-read", vfBlockedAt("(Read)") == nr)
	vfReach("blocked")
	delivered, closed, sockErr := 0, false, false
	nev := vfPick("events", 1, 2)
	for e := 0; e < nev; e++ {
		switch vfPick(vfName("event", e), 0, 5) {
		case 0: // a 4-byte message arrives (two reads of 2 bytes)
			s.kcpInput(vfNextPush(s, vfName("m", e), 4))
			delivered += 4
		case 1:
			deadline = time.Now().Add(10 * time.Millisecond)
			s.SetReadDeadline(deadline)
			note(deadline)
		case 2:
			deadline = time.Time{}
			s.SetReadDeadline(deadline)
		case 3:
			if !closed {
				vfAssert("c13/first-close-succeeds", s.Close() == nil)
				closed = true
			} else {
				vfAssert("c13/second-close-reports-error", s.Close() != nil)
			}
		case 4:
			s.notifyReadError(vfErrShardSize)
			sockErr = true
		case 5:
			deadline = time.Now().Add(-time.Millisecond)
			s.SetReadDeadline(deadline)
			note(deadline)
		}
		vfQuiesce(0)
		// W-a: nobody stays blocked in Read while bytes are readable
		s.mu.Lock()
		readable := len(s.bufptr) > 0 || s.kcp.PeekSize() > 0
		s.mu.Unlock()
		vfAssert("c13/no-reader-blocked-while-data-is-readable", !(readable && vfBlockedAt("(Read)") > 0))
	}
	// let time pass well beyond any deadline
	vfQuiesce(int(50 * time.Millisecond))
	vfReach("settled")
	still := vfBlockedAt("(Read)")
	got := 0
	for i := range res {
		r := res[i]
		if !r.done {
			continue
		}
		got += r.n
		if r.err != nil && vfIsTimeout(r.err) {
			// W-b: a timeout is never reported before the earliest deadline that was ever in force
			vfAssert("c13/timeout-only-after-a-deadline-has-passed", !earliest.IsZero() && r.at >= earliest.UnixNano())
		}
		if r.err == nil {
			vfAssert("c13/read-returns-data", r.n > 0)
		}
	}
	vfAssert("c13/no-more-bytes-than-delivered", got <= delivered)
	if closed || sockErr {
		vfAssert("c13/close-or-socket-error-wakes-every-reader", still == 0)
	} else if !deadline.IsZero() {
		// label carries the number of blocked callers: with two of them a deadline change reaches
		// only one (single wake-up token), recorded as a known finding
		vfAssert(vfName("c13/deadline-in-force-wakes-every-reader/readers=", nr), still == 0)
	}
	if delivered >= 2*nr {
		// enough data for every blocked reader's 2-byte buffer
		vfAssert("c13/readable-data-wakes-every-reader", still == 0)
	}
	s.mu.Lock()
	readable := len(s.bufptr) > 0 || s.kcp.PeekSize() > 0
	s.mu.Unlock()
	vfAssert("c13/no-reader-blocked-while-data-is-readable", !(readable && still > 0))
	// after Close, Read drains what was received and then fails
	if closed {
		buf := make([]byte, 16)
		for {
			n, err := s.Read(buf)
			if err != nil {
				break
			}
			got += n
		}
		if !sockErr {
			vfAssert("c13/read-after-close-drains-received-data-first", got == delivered)
		}
		_, werr := s.Write([]byte{1})
		vfAssert("c13/write-after-close-fails", werr != nil)
	}
}

// an ACK datagram acknowledging everything the session has sent so far
func vfAckAll(s *UDPSession) []byte {
	var f vfDatagramFields
	f.conv, f.cmd, f.wnd = s.kcp.conv, IKCP_CMD_ACK, 32
	f.sn, f.una, f.ts = s.kcp.snd_una, s.kcp.snd_nxt, currentMs()
	return vfEncodeDatagram(f)
}

func vfH_C13_write() {
	conn := vfNewConn()
	s := vfNewSession(vfU32("conv"), 0, 0, nil, conn, vfServerAddr, nil)
	s.SetNoDelay(0, 100, 0, 1)
	s.SetWindowSize(1, 32)
	vfSetClock(vfU32("t0"))
	n0, err0 := s.Write(vfBytes("w0", 3))
	vfAssert("c13/first-write-admitted", vfAnd(n0 == 3, err0 == nil))
	vfGoroutineMode(1, false)
	var deadline, earliest time.Time
	note := func(d time.Time) {
		if !d.IsZero() && (earliest.IsZero() || d.Before(earliest)) {
			earliest = d
		}
	}
	if vfPick("deadline-before-blocking", 0, 1) == 1 {
		deadline = time.Now().Add(10 * time.Millisecond)
		s.SetWriteDeadline(deadline)
		note(deadline)
	}
	nw := vfPick("writers", 1, 2)
	res := make([]vfCallResult, nw)
	for i := 0; i < nw; i++ {
		i := i
		go func() {
			n, err := s.Write([]byte{byte(i), 7})
			res[i] = vfCallResult{true, n, err, vfNowNs()}
		}()
	}
	vfQuiesce(0)
	vfAssert("c13/write-blocks-while-window-is-full", vfBlockedAt("(WriteBuffers)") == nw)
	vfReach("blocked")
	closed, sockErr, opened := false, false, 0
	nev := vfPick("events", 1, 2)
	for e := 0; e < nev; e++ {
		switch vfPick(vfName("event", e), 0, 5) {
		case 0: // the peer acknowledges everything: the window opens
			s.kcpInput(vfAckAll(s))
			opened++
		case 1:
			deadline = time.Now().Add(10 * time.Millisecond)
			s.SetWriteDeadline(deadline)
			note(deadline)
		case 2:
			deadline = time.Time{}
			s.SetWriteDeadline(deadline)
		case 3:
			if !closed {
				s.Close()
				closed = true
			}
		case 4:
			s.notifyWriteError(vfErrShardSize)
			sockErr = true
		case 5:
			deadline = time.Now().Add(-time.Millisecond)
			s.SetWriteDeadline(deadline)
			note(deadline)
		}
		vfQuiesce(0)
		s.mu.Lock()
		room := s.kcp.WaitSnd() < int(s.kcp.snd_wnd)
		s.mu.Unlock()
		vfAssert("c13/no-writer-blocked-while-window-has-room", !(room && vfBlockedAt("(WriteBuffers)") > 0))
	}
	vfQuiesce(int(50 * time.Millisecond))
	vfReach("settled")
	still := vfBlockedAt("(WriteBuffers)")
	for i := range res {
		if res[i].done && res[i].err == nil {
			vfAssert("c13/admitted-write-reports-its-length", res[i].n == 2)
		}
		if res[i].done && res[i].err != nil && vfIsTimeout(res[i].err) {
			vfAssert("c13/timeout-only-after-a-deadline-has-passed", !earliest.IsZero() && res[i].at >= earliest.UnixNano())
		}
	}
	if closed || sockErr {
		vfAssert("c13/close-or-socket-error-wakes-every-writer", still == 0)
	} else if !deadline.IsZero() {
		vfAssert(vfName("c13/deadline-in-force-wakes-every-writer/writers=", nw), still == 0)
	}
	s.mu.Lock()
	room := s.kcp.WaitSnd() < int(s.kcp.snd_wnd)
	s.mu.Unlock()
	vfAssert("c13/no-writer-blocked-while-window-has-room", !(room && still > 0))
}

func vfH_C13_accept() {
	lconn := vfNewConn()
	l, _ := serveConn(nil, 0, 0, lconn, false)
	SystemTimedSched = vfInertSched()
	vfSetClock(vfU32("t0"))
	vfGoroutineMode(1, false)
	var deadline time.Time
	if vfPick("deadline-before-blocking", 0, 1) == 1 {
		deadline = time.Now().Add(10 * time.Millisecond)
		l.SetReadDeadline(deadline)
	}
	na := vfPick("accepters", 1, 2)
	type accRes struct {
		done bool
		s    *UDPSession
		err  error
	}
	res := make([]accRes, na)
	for i := 0; i < na; i++ {
		i := i
		go func() {
			s, err := l.AcceptKCP()
			res[i] = accRes{true, s, err}
		}()
	}
	vfQuiesce(0)
	vfAssert("c13/accept-blocks-while-backlog-empty", vfBlockedAt("(AcceptKCP)") == na)
	vfReach("blocked")
	closed, sockErr, peers := false, false, 0
	deadlineSetWhileBlocked := false
	nev := vfPick("events", 1, 2)
	for e := 0; e < nev; e++ {
		switch vfPick(vfName("event", e), 0, 3) {
		case 0: // a new peer's first datagram
			var f vfDatagramFields
			f.conv, f.cmd, f.wnd = vfU32(vfName("peerconv", e)), IKCP_CMD_PUSH, 32
			f.ln, f.payload = 2, vfBytes(vfName("hello", e), 2)
			l.packetInput(vfEncodeDatagram(f), vfAddr(vfName("peer:", e)))
			peers++
		case 1:
			deadline = time.Now().Add(10 * time.Millisecond)
			l.SetReadDeadline(deadline)
			deadlineSetWhileBlocked = true
		case 2:
			if !closed {
				vfAssert("c13/listener-first-close-succeeds", l.Close() == nil)
				closed = true
			} else {
				vfAssert("c13/listener-second-close-reports-error", l.Close() != nil)
			}
		case 3:
			l.notifyReadError(vfErrShardSize)
			sockErr = true
		}
		vfQuiesce(0)
		vfAssert("c13/no-accept-blocked-while-backlog-non-empty", !(len(l.chAccepts) > 0 && vfBlockedAt("(AcceptKCP)") > 0))
	}
	vfQuiesce(int(50 * time.Millisecond))
	vfReach("settled")
	still := vfBlockedAt("(AcceptKCP)")
	accepted := 0
	for i := range res {
		if res[i].done && res[i].err == nil {
			vfAssert("c13/accept-returns-a-session", res[i].s != nil)
			accepted++
		}
	}
	vfAssert("c13/one-accept-per-new-peer", accepted <= peers)
	if closed || sockErr {
		vfAssert("c13/close-or-socket-error-wakes-every-accept", still == 0)
	} else if !deadline.IsZero() {
		if deadlineSetWhileBlocked {
			vfAssert("c13/accept-deadline-set-while-blocked-is-honoured", still == 0)
		} else {
			vfAssert("c13/accept-deadline-set-before-blocking-is-honoured", still == 0)
		}
	}
	if peers >= na {
		vfAssert("c13/new-peers-wake-every-accept", still == 0)
	}
}
