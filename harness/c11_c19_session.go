package kcp

import (
	"encoding/binary"
	"errors"
	"hash/crc32"
	"net"
)

// ---------------- C11: isolation on the listener's demultiplexer ----------------

// vfSecondClient: a second peer (other address, other conversation) connects to the same listener.
func vfSecondClient(pr *vfPair) (c2 *UDPSession, srv2 *UDPSession) {
	conn2 := vfNewConn()
	c2 = vfNewSession(vfU32("conv2"), pr.d, pr.p, nil, conn2, vfServerAddr, vfMakeCipher(pr.ck))
	c2.SetNoDelay(0, 100, 0, 1)
	c2.Write(vfBytes("msgB", 3))
	vfDrainTx(c2)
	for _, w := range conn2.writes {
		pr.l.packetInput(vfCopy(w.data), vfOtherAddr)
	}
	if len(pr.l.chAccepts) > 0 {
		srv2 = <-pr.l.chAccepts
	}
	return
}

// (1) whatever arrives from one peer's address — valid, stale or forged bytes — has an empty
// write set on the session of every other address and on their table entries.
func vfH_C11_isolation() {
	ck := []int{vfCipherNil, vfCipherNone}[vfPick("cipher", 0, 1)]
	d, p := vfPickFEC()
	pr := vfConnect(ck, d, p, 1)
	_, srvB := vfSecondClient(pr)
	vfAssert("c11/two-peers-two-sessions", vfAnd(vfAnd(pr.srv != nil, srvB != nil), vfAnd(len(pr.l.sessions) == 2, pr.srv != srvB)))
	vfAssert("c11/sessions-keyed-by-address", vfAnd(pr.l.sessions[string(vfClientAddr)] == pr.srv, pr.l.sessions[string(vfOtherAddr)] == srvB))
	vfAssert("c11/remote-addr", vfAnd(pr.srv.RemoteAddr() == net.Addr(vfClientAddr), srvB.RemoteAddr() == net.Addr(vfOtherAddr)))
	vfReach("connected")
	n := pr.client.headerSize - fecHeaderSizePlus2*min(d, 1) + []int{0, 12, 24, 28, 36}[vfPick("dg_n", 0, 4)]
	dg := vfBytes("dg", n)
	vfJournalStart(pr.l, pr.srv, srvB)
	pr.l.packetInput(dg, vfClientAddr)
	vfReach("post")
	vfAssert("c11/other-session-untouched", !vfWritten(srvB, pr.l))
	vfAssert("c11/other-table-entry-kept", pr.l.sessions[string(vfOtherAddr)] == srvB)
	vfAssert("c11/other-session-not-closed", !srvB.isClosed())
	vfAssert("c11/table-size", len(pr.l.sessions) == 2)
}

// (2) a new peer produces exactly one session and one Accept; a second datagram adds nothing;
// a full backlog creates nothing.
func vfH_C11_accept_once() {
	ck := []int{vfCipherNil, vfCipherNone}[vfPick("cipher", 0, 1)]
	d, p := vfPickFEC()
	full := vfPick("backlog-full", 0, 1) == 1
	cconn, lconn := vfNewConn(), vfNewConn()
	client := vfNewSession(vfU32("conv"), d, p, nil, cconn, vfServerAddr, vfMakeCipher(ck))
	client.SetNoDelay(0, 100, 0, 1)
	l, _ := serveConn(vfMakeCipher(ck), d, p, lconn, false)
	if full {
		for i := 0; i < acceptBacklog; i++ {
			l.chAccepts <- nil
		}
	}
	vfSetClock(vfU32("t0"))
	client.Write(vfBytes("m0", 3))
	client.Write(vfBytes("m1", 2))
	vfDrainTx(client)
	vfAssert("c11/client-emitted", len(cconn.writes) >= 2)
	vfReach("pre")
	for _, w := range cconn.writes {
		l.packetInput(vfCopy(w.data), vfClientAddr)
	}
	vfReach("post")
	if full {
		vfAssert("c11/full-backlog-creates-nothing", vfAnd(len(l.sessions) == 0, len(l.chAccepts) == acceptBacklog))
		return
	}
	vfAssert("c11/exactly-one-session", len(l.sessions) == 1)
	vfAssert("c11/exactly-one-accept", len(l.chAccepts) == 1)
	s := <-l.chAccepts
	vfAssert("c11/accepted-is-the-table-entry", l.sessions[string(vfClientAddr)] == s)
	vfAssert("c11/conv-and-address-are-the-peer's", vfAnd(s.GetConv() == client.GetConv(), s.RemoteAddr() == net.Addr(vfClientAddr)))
}

// (3) same address, different conversation id: ignored unless it starts a conversation
// (sn == 0), which replaces the old session with a fresh one — never merged.
func vfH_C11_conv_mismatch() {
	d, p := vfPickFEC()
	pr := vfConnect(vfCipherNil, d, p, 1)
	vfAssert("connect/accepted", pr.srv != nil)
	old := pr.srv
	vfReach("connected")
	hdr := 0
	if d > 0 {
		hdr = fecHeaderSizePlus2 // the segment travels behind an FEC data header
	}
	dg := vfBytes("dg", hdr+[]int{24, 27, 30}[vfPick("dg_n", 0, 2)])
	if d > 0 {
		binary.LittleEndian.PutUint16(dg[4:], typeData)
	}
	conv := binary.LittleEndian.Uint32(dg[hdr:])
	sn := binary.LittleEndian.Uint32(dg[hdr+IKCP_SN_OFFSET:])
	vfAssume(conv != old.kcp.conv)
	if d == 0 {
		// not an FEC/OOB type marker at offset 4 (FEC is off on this listener's peer)
		flag := binary.LittleEndian.Uint16(dg[4:])
		vfAssume(vfAnd(flag != typeData, vfAnd(flag != typeParity, flag != typeOOB)))
	}
	rq0, rn0 := old.kcp.rcv_queue.Len(), old.kcp.rcv_nxt
	vfJournalStart(pr.l, old)
	pr.l.packetInput(dg, vfClientAddr)
	vfReach("post")
	if vfConcreteBool(sn != 0) {
		vfAssert("c11/foreign-conv-ignored", !vfWritten(old, pr.l))
		vfAssert("c11/foreign-conv-keeps-session", pr.l.sessions[string(vfClientAddr)] == old)
	} else {
		nw := pr.l.sessions[string(vfClientAddr)]
		vfAssert("c11/new-conversation-replaces-session", vfAnd(nw != nil, nw != old))
		vfAssert("c11/old-session-closed", old.isClosed())
		vfAssert("c11/old-stream-not-touched", vfAnd(old.kcp.rcv_queue.Len() == rq0, old.kcp.rcv_nxt == rn0))
		if nw != nil {
			vfAssert("c11/new-session-has-the-new-conv", nw.kcp.conv == conv)
			vfAssert("c11/new-session-starts-empty", vfAnd(nw.kcp.rcv_nxt <= 1, nw.kcp.snd_nxt == 0))
			vfAssert("c11/one-accept-for-the-new-conversation", len(pr.l.chAccepts) == 1)
			// the application still holds the replaced session and closes it late (the usual
			// deferred Close after Read failed): that must not unregister or disturb its successor
			err := old.Close()
			vfAssert("c11/late-close-of-replaced-session-reports-already-closed", err != nil)
			vfAssert("c11/late-close-of-replaced-session-keeps-its-successor", vfAnd(pr.l.sessions[string(vfClientAddr)] == nw, !nw.isClosed()))
		}
	}
}

// (4) the core refuses a foreign conversation id without effect.
func vfH_C11_core_foreign_conv() {
	k := vfNewKCP("", vfCfg{mtus: []int{1400}, nc: 1}, nil)
	vfArbitraryKCP("", k, vfPickShapeFrom(vfShapesQuick))
	dg := vfOneSegmentDatagram("dg")
	vfAssume(len(dg) >= IKCP_OVERHEAD)
	vfAssume(binary.LittleEndian.Uint32(dg) != k.conv)
	vfReach("pre")
	vfJournalStart(k)
	ret := k.Input(dg, PacketType(vfIntRange("ptype", 0, 1)), vfBool("ackNoDelay"))
	vfReach("post")
	vfAssert("c11/core-rejects-foreign-conv", ret == -1)
	vfAssert("c11/core-foreign-conv-no-effect", !vfWritten(k))
}

// (5) a dialled session drops datagrams that do not come from its peer's address.
type vfScriptConn struct {
	vfConn
	script []vfWrite
}

func (c *vfScriptConn) ReadFrom(p []byte) (int, net.Addr, error) {
	if len(c.script) == 0 {
		return 0, nil, errors.New("script exhausted")
	}
	it := c.script[0]
	c.script = c.script[1:]
	return copy(p, it.data), it.to, nil
}

func vfH_C11_dialled_filter() {
	sc := &vfScriptConn{}
	var remote, foreign net.Addr
	if vfPick("udpaddr", 0, 1) == 1 {
		remote = &net.UDPAddr{IP: net.IP{10, 0, 0, 1}, Port: 2000}
		foreign = []net.Addr{&net.UDPAddr{IP: net.IP{10, 0, 0, 2}, Port: 2000}, &net.UDPAddr{IP: net.IP{10, 0, 0, 1}, Port: 2001}, vfAddr("10.0.0.1:2000"), &net.UDPAddr{IP: net.IP{10, 0, 0, 1}, Port: 2000, Zone: "eth1"}}[vfPick("foreign", 0, 3)]
	} else {
		remote = vfServerAddr
		foreign = vfOtherAddr
	}
	SystemTimedSched = vfInertSched()
	// the session as newUDPSession leaves it, but over the scripted socket and with the read loop driven here
	s := newUDPSession(vfU32("conv"), 0, 0, &Listener{}, sc, false, remote, nil)
	s.l = nil
	dg := vfBytes("dg", 30)
	// the bytes are a perfectly acceptable segment for this conversation
	binary.LittleEndian.PutUint32(dg, s.kcp.conv)
	dg[4] = IKCP_CMD_PUSH
	binary.LittleEndian.PutUint32(dg[20:], 6)
	sc.script = []vfWrite{{dg, foreign}}
	vfReach("pre")
	vfJournalStart(s.kcp)
	s.defaultReadLoop()
	vfReach("post")
	vfAssert("c11/datagram-from-foreign-address-ignored", !vfWritten(s.kcp, s))
	vfAssert("c11/nothing-readable", s.kcp.PeekSize() < 0)
}

// ---------------- C19: out-of-band messages ----------------

func vfH_C19_oob() {
	ck := []int{vfCipherNil, vfCipherNone, vfCipherAEAD}[vfPick("cipher", 0, 2)]
	pr := vfConnect(ck, 2, 1, 1)
	vfAssert("connect/accepted", pr.srv != nil)
	vfAssert("oob/mtu-set", pr.client.SetMtu(100))
	max := pr.client.GetOOBMaxSize()
	vfAssert("oob/max-size", max == int(pr.client.kcp.mtu)-4)
	var got []byte
	calls := 0
	pr.srv.SetOOBHandler(func(b []byte) { got = vfCopy(b); calls++ })
	vfReach("connected")
	n := []int{0, 1, max - 1, max, max + 1}[vfPick("len", 0, 4)]
	payload := vfBytes("oob", n)
	w0 := len(pr.cconn.writes)
	encNext, encCount, encMax := pr.client.fecEncoder.next, pr.client.fecEncoder.shardCount, pr.client.fecEncoder.maxSize
	vfJournalStart(pr.client.kcp, pr.client.fecEncoder, pr.srv.kcp, pr.srv.fecDecoder)
	err := pr.client.SendOOB(payload)
	if n > max {
		vfAssert("oob/oversize-refused", err != nil)
		vfAssert("oob/refusal-queues-nothing", len(pr.client.chPostProcessing) == 0)
		vfReach("refused")
		return
	}
	vfAssert("oob/accepted-up-to-max", err == nil)
	vfDrainTx(pr.client)
	vfReach("sent")
	vfAssert("oob/one-datagram", len(pr.cconn.writes) == w0+1)
	// the stream's FEC protection is not disturbed: no sequence id consumed, no shard slot used
	vfAssert("oob/encoder-sequence-untouched", vfAnd(pr.client.fecEncoder.next == encNext, vfAnd(pr.client.fecEncoder.shardCount == encCount, pr.client.fecEncoder.maxSize == encMax)))
	vfAssert("oob/sender-core-untouched", !vfWritten(pr.client.kcp, pr.client))
	vfAssert("oob/sender-fec-untouched", !vfWritten(pr.client.fecEncoder))
	wire := pr.cconn.writes[len(pr.cconn.writes)-1].data
	vfAssert("oob/size-on-wire<=mtu", len(wire) <= 100)
	nl := 0
	switch ck {
	case vfCipherNone:
		nl = nonceSize
	case vfCipherAEAD:
		nl = 12
	}
	if nl > 0 {
		for _, w := range pr.cconn.writes[:len(pr.cconn.writes)-1] {
			vfAssert("oob/nonce-fresh", vfFreshlyDistinct(wire[:nl], w.data[:nl]))
		}
	}
	pr.l.packetInput(vfCopy(wire), vfClientAddr)
	vfReach("received")
	vfAssert("oob/handler-called-once", calls == 1)
	vfAssert("oob/length-intact", len(got) == n)
	if len(got) == n {
		vfAssert("oob/bytes-intact", vfBytesEq(got, payload))
	}
	vfAssert("oob/receiver-core-untouched", !vfWritten(pr.srv.kcp, pr.srv))
	vfAssert("oob/receiver-fec-untouched", !vfWritten(pr.srv.fecDecoder))
	vfAssert("oob/no-autotune-sample", pr.srv.fecDecoder.autoTune.count <= 3)
}

// sessions without FEC refuse OOB
func vfH_C19_oob_needs_fec() {
	pr := vfConnect(vfCipherNil, 0, 0, 1)
	vfReach("connected")
	vfAssert("oob/no-fec-refused", pr.client.SendOOB(vfBytes("oob", 3)) != nil)
	vfAssert("oob/no-fec-max-size-0", pr.client.GetOOBMaxSize() == 0)
	vfAssert("oob/no-fec-handler-refused", pr.client.SetOOBHandler(func([]byte) {}) != nil)
	vfAssert("oob/refusal-queues-nothing", len(pr.client.chPostProcessing) == 0)
}

// OOB to a full post-processing queue is dropped, recycled once, and never blocks
func vfH_C19_oob_full_queue() {
	pr := vfConnect(vfCipherNil, 2, 1, 1)
	for len(pr.client.chPostProcessing) < cap(pr.client.chPostProcessing) {
		pr.client.chPostProcessing <- sendRequest{defaultBufferPool.Get()[:40], false}
	}
	vfReach("full")
	live0 := vfPoolLive()
	err := pr.client.SendOOB(vfBytes("oob", 3))
	vfReach("post")
	vfAssert("oob/full-queue-drops-silently", err == nil)
	vfAssert("oob/dropped-buffer-recycled", vfGhost(vfPoolLive() == live0))
}

// ---------------- C09 / C10 at session level ----------------

// every datagram on the wire follows the documented layout, for cipher x FEC; an independent
// decoder reassembles the written bytes from the wire alone; nonces are fresh per datagram.
func vfH_C09_wire_layout() {
	ck := []int{vfCipherNil, vfCipherNone, vfCipherAEAD}[vfPick("cipher", 0, 2)]
	d, p := vfPickFEC()
	pr := vfConnect(ck, d, p, 2)
	vfReach("connected")
	nonceLen := 0
	switch ck {
	case vfCipherNone:
		nonceLen = nonceSize
	case vfCipherAEAD:
		nonceLen = 12
	}
	var stream []byte
	ndata, nparity := 0, 0
	for i, w := range pr.cconn.writes {
		vfAssert("wire/size<=mtu", len(w.data) <= IKCP_MTU_DEF)
		vfAssert("wire/addressed-to-peer", w.to == net.Addr(vfServerAddr))
		body := w.data
		switch ck {
		case vfCipherNone:
			vfAssert("wire/crc-covers-everything-after-it", binary.LittleEndian.Uint32(body[nonceSize:]) == crc32.ChecksumIEEE(body[cryptHeaderSize:]))
			body = body[cryptHeaderSize:]
		case vfCipherAEAD:
			pt, ok := vfAEADOpen(nil, body[:12], body[12:])
			vfAssert("wire/aead-opens", ok)
			body = pt
		}
		for j := 0; j < i; j++ {
			if nonceLen > 0 {
				vfAssert("wire/nonce-fresh-per-datagram", vfFreshlyDistinct(w.data[:nonceLen], pr.cconn.writes[j].data[:nonceLen]))
			}
		}
		if d > 0 {
			seq := binary.LittleEndian.Uint32(body)
			typ := binary.LittleEndian.Uint16(body[4:])
			vfAssert("wire/fec-seqid-counts-up", seq == uint32(i))
			if int(seq)%(d+p) < d {
				vfAssert("wire/fec-type-data", typ == typeData)
				vfAssert("wire/fec-size=payload+2", int(binary.LittleEndian.Uint16(body[6:])) == len(body)-fecHeaderSize)
				body = body[fecHeaderSizePlus2:]
				ndata++
			} else {
				vfAssert("wire/fec-type-parity", typ == typeParity)
				nparity++
				continue
			}
		}
		hs, ok := vfSpecDecode(body)
		vfAssert("wire/kcp-segments-well-formed", ok)
		for _, h := range hs {
			vfAssert("wire/conv", h.conv == pr.client.kcp.conv)
			if h.cmd == IKCP_CMD_PUSH {
				vfAssert("wire/push-sn-in-order", int(h.sn) == len(stream)/3+len(stream)%3)
				stream = append(stream, h.data...)
			}
		}
	}
	vfReach("decoded")
	want := append(vfCopy(vfBytes("msg0", 3)), vfBytes("msg1", 3)...)
	vfAssert("wire/stream-length", len(stream) == len(want))
	if len(stream) == len(want) {
		vfAssert("wire/stream-reassembles-from-the-wire", vfBytesEq(stream, want))
	}
}

// session SetMtu arithmetic for every int, every header configuration (no traffic)
func vfH_C10_session_setmtu() {
	ck := vfPick("cipher", 0, 3)
	d, p := vfPickFEC()
	conn := vfNewConn()
	s := vfNewSession(vfU32("conv"), d, p, nil, conn, vfServerAddr, vfMakeCipher(ck))
	over := 0
	if ck == vfCipherAEAD {
		over = 16
	}
	vfAssert("sessmtu/default-accepted", int(s.kcp.mtu)+s.headerSize+over == IKCP_MTU_DEF)
	mtu0 := s.kcp.mtu
	m := vfIntRange("mtu", -(1 << 40), 1<<40)
	vfReach("pre")
	ok := s.SetMtu(m)
	vfReach("post")
	lim := vfIteInt(m < mtuLimit, m, mtuLimit)
	if ok {
		vfAssert("sessmtu/accepted-fits-the-wire", int(s.kcp.mtu)+s.headerSize+over <= lim)
		vfAssert("sessmtu/accepted-leaves-room-for-data", s.kcp.mtu > IKCP_OVERHEAD)
		vfAssert("sessmtu/mss-consistent", s.kcp.mss == s.kcp.mtu-IKCP_OVERHEAD)
	} else {
		vfAssert("sessmtu/refusal-has-no-effect", s.kcp.mtu == mtu0)
		vfAssert("sessmtu/refused-only-when-no-room", lim-s.headerSize-over <= IKCP_OVERHEAD)
	}
}

// sizes on the wire at the MTU boundary: data, parity, AEAD tag, OOB
func vfH_C10_session_wire_sizes() {
	ck := []int{vfCipherNil, vfCipherNone, vfCipherAEAD}[vfPick("cipher", 0, 2)]
	d, p := vfPickFEC()
	conn := vfNewConn()
	s := vfNewSession(vfU32("conv"), d, p, nil, conn, vfServerAddr, vfMakeCipher(ck))
	s.SetNoDelay(0, 100, 0, 1)
	m := []int{80, 81, 120}[vfPick("mtu", 0, 2)]
	vfAssert("wire/mtu-accepted", s.SetMtu(m))
	mss := int(s.kcp.mss)
	vfSetClock(vfU32("t0"))
	// writes that fill segments exactly, by one less, and spill into a second segment
	l := []int{mss, mss - 1, mss + 1, 2 * mss}[vfPick("wlen", 0, 3)]
	n, err := s.Write(vfBytes("w", l))
	vfAssert("wire/write-accepted", vfAnd(n == l, err == nil))
	if d > 0 {
		s.SendOOB(vfBytes("oob", s.GetOOBMaxSize()))
	}
	vfDrainTx(s)
	vfReach("sent")
	vfAssert("wire/something-sent", len(conn.writes) >= 1)
	for _, w := range conn.writes {
		vfAssert("wire/size<=session-mtu", len(w.data) <= m)
	}
}

// an OOB message carrying another conversation id, arriving from the address of an existing
// session, is never handed to that session's handler — whatever its length
func vfH_C19_oob_foreign_conv() {
	ck := []int{vfCipherNil, vfCipherNone}[vfPick("cipher", 0, 1)]
	pr := vfConnect(ck, 2, 1, 1)
	vfAssert("connect/accepted", pr.srv != nil)
	calls := 0
	pr.srv.SetOOBHandler(func(b []byte) { calls++ })
	conn2 := vfNewConn()
	other := vfNewSession(vfU32("conv2"), 2, 1, nil, conn2, vfServerAddr, vfMakeCipher(ck))
	vfAssume(other.kcp.conv != pr.srv.kcp.conv)
	n := []int{0, 1, 5, 19, 20, 21, 40}[vfPick("len", 0, 6)]
	vfAssert("oob/sent", other.SendOOB(vfBytes("oob", n)) == nil)
	vfDrainTx(other)
	vfAssert("oob/one-datagram", len(conn2.writes) == 1)
	vfReach("pre")
	pr.l.packetInput(vfCopy(conn2.writes[0].data), vfClientAddr)
	vfReach("post")
	vfAssert("oob/foreign-conversation-never-reaches-this-session's-handler", calls == 0)
}

// ---------------- C09(a): header codec, both directions ----------------

// segment.encode against the independent decoder for all field values, and the real Input on
// what the independent encoder writes.
func vfH_C09_header_codec() {
	var seg segment
	seg.conv, seg.cmd, seg.frg, seg.wnd = vfU32("conv"), vfU8("cmd"), vfU8("frg"), vfU16("wnd")
	seg.ts, seg.sn, seg.una = vfU32("ts"), vfU32("sn"), vfU32("una")
	n := vfPick("len", 0, 3)
	seg.data = vfBytes("payload", n)
	buf := make([]byte, IKCP_OVERHEAD+n)
	rest := seg.encode(buf)
	vfAssert("codec/encode-returns-the-payload-area", len(rest) == n)
	copy(rest, seg.data)
	hs, ok := vfSpecDecode(buf)
	vfReach("encoded")
	vfAssert("codec/one-well-formed-segment", ok && len(hs) == 1)
	if len(hs) == 1 {
		h := hs[0]
		vfAssert("codec/fields-at-documented-offsets", vfAnd(vfAnd(vfAnd(h.conv == seg.conv, h.cmd == seg.cmd), vfAnd(h.frg == seg.frg, h.wnd == seg.wnd)), vfAnd(vfAnd(h.ts == seg.ts, h.sn == seg.sn), vfAnd(h.una == seg.una, int(h.ln) == n))))
		vfAssert("codec/payload-follows-the-header", vfBytesEq(h.data, seg.data))
	}
	// reverse direction: a PUSH written by the independent encoder is understood by the real parser
	k := NewKCP(seg.conv, func([]byte, int) {})
	var f vfDatagramFields
	f.conv, f.cmd, f.frg, f.wnd, f.ts, f.sn, f.una = seg.conv, IKCP_CMD_PUSH, seg.frg, seg.wnd, seg.ts, 0, seg.una
	f.ln, f.payload = n, seg.data
	vfSetClock(vfU32("now"))
	ret := k.Input(vfEncodeDatagram(f), IKCP_PACKET_REGULAR, false)
	vfReach("parsed")
	vfAssert("codec/spec-encoded-push-accepted", ret == 0)
	vfAssert("codec/window-field-read", k.rmt_wnd == uint32(seg.wnd))
	vfAssert("codec/ack-owed-with-echoed-timestamp", len(k.acklist) == 1 && vfConcreteBool(vfAnd(k.acklist[0].sn == 0, k.acklist[0].ts == seg.ts)))
	vfAssert("codec/segment-delivered", k.rcv_queue.Len() == 1)
	if k.rcv_queue.Len() == 1 {
		s := vfRingAt(k.rcv_queue, 0)
		vfAssert("codec/fragment-and-payload-delivered", vfAnd(s.frg == seg.frg, vfBytesEq(s.data, seg.data)))
	}
}

// ---------------- C01 L6: session Read / WriteBuffers (non-blocking paths) ----------------

// Read returns the next min(len(b), available) owed bytes in order, for every split between the
// pending remainder, the delivery queue and the caller's buffer size.
func vfH_C01_session_read() {
	conn := vfNewConn()
	s := vfNewSession(vfU32("conv"), 0, 0, nil, conn, vfServerAddr, nil)
	vfSetClock(vfU32("t0"))
	var want []byte
	nm := vfPick("messages", 1, 2)
	for i := 0; i < nm; i++ {
		l := []int{1, 5}[vfPick(vfName("mlen", i), 0, 1)]
		dg := vfNextPush(s, vfName("m", i), l)
		want = append(want, dg[IKCP_OVERHEAD:]...)
		s.kcpInput(dg)
	}
	vfReach("delivered")
	var got []byte
	for r := 0; r < 5 && len(got) < len(want); r++ {
		b := make([]byte, []int{1, 3, 16}[vfPick(vfName("rlen", r), 0, 2)])
		n, err := s.Read(b)
		vfAssert("read/no-error-while-data-is-owed", err == nil)
		vfAssert("read/returns-at-least-one-byte", n >= 1 && n <= len(b))
		got = append(got, b[:n]...)
		vfAssert("read/prefix-of-what-was-delivered", len(got) <= len(want) && vfConcreteBool(vfBytesEq(got, want[:len(got)])))
	}
	vfReach("read")
	// five reads of one byte cannot empty ten bytes: only the prefix property is claimed then
	vfAssert("read/never-more-than-delivered", len(got) <= len(want))
}

// WriteBuffers hands the core consecutive chunks of at most MSS bytes whose concatenation is the
// vector written, and reports the total length.
func vfH_C01_session_write() {
	conn := vfNewConn()
	s := vfNewSession(vfU32("conv"), 0, 0, nil, conn, vfServerAddr, nil)
	s.SetNoDelay(0, 100, 0, 1)
	s.SetWriteDelay(true) // keep the segments queued so that they can be inspected
	vfAssert("write/mtu", s.SetMtu(IKCP_OVERHEAD+3))
	if vfPick("stream", 0, 1) == 1 {
		s.SetStreamMode(true)
	}
	vfSetClock(vfU32("t0"))
	l1 := []int{0, 1, 3, 4, 7}[vfPick("len1", 0, 4)]
	l2 := []int{0, 2, 6}[vfPick("len2", 0, 2)]
	v1, v2 := vfBytes("v1", l1), vfBytes("v2", l2)
	vfReach("pre")
	n, err := s.WriteBuffers([][]byte{v1, v2})
	vfReach("post")
	vfAssert("write/accepted", err == nil)
	vfAssert("write/reports-total-length", n == l1+l2)
	all := append(vfCopy(vfQueueBytes(s.kcp.snd_buf)), vfQueueBytes(s.kcp.snd_queue)...)
	vfAssert("write/queued-bytes-are-the-vector", len(all) == l1+l2 && vfConcreteBool(vfBytesEq(all, append(vfCopy(v1), v2...))))
	for i := 0; i < s.kcp.snd_queue.Len(); i++ {
		vfAssert("write/chunks-within-mss", len(vfRingAt(s.kcp.snd_queue, i).data) <= int(s.kcp.mss))
	}
}

// (2b) the accept backlog was full when the peer's first datagrams arrived: nothing is created;
// as soon as the backlog has room the peer's next datagram (a retransmission — any of them)
// produces exactly one session and one Accept, and further datagrams add nothing. A second
// peer arriving in between gets its own single session.
func vfH_C11_backlog_then_room() {
	ck := []int{vfCipherNil, vfCipherNone}[vfPick("cipher", 0, 1)]
	d, p := vfPickFEC()
	cconn, lconn := vfNewConn(), vfNewConn()
	client := vfNewSession(vfU32("conv"), d, p, nil, cconn, vfServerAddr, vfMakeCipher(ck))
	client.SetNoDelay(0, 100, 0, 1)
	l, _ := serveConn(vfMakeCipher(ck), d, p, lconn, false)
	for i := 0; i < acceptBacklog; i++ {
		l.chAccepts <- nil
	}
	vfSetClock(vfU32("t0"))
	client.Write(vfBytes("m0", 3))
	client.Write(vfBytes("m1", 2))
	vfDrainTx(client)
	for _, w := range cconn.writes {
		l.packetInput(vfCopy(w.data), vfClientAddr)
	}
	vfAssert("c11/full-backlog-creates-nothing", vfAnd(len(l.sessions) == 0, len(l.chAccepts) == acceptBacklog))
	vfReach("full")
	<-l.chAccepts // the application accepts one of the earlier connections
	// which of the peer's datagrams is seen first now is arbitrary (retransmission, reordering)
	first := vfPick("first", 0, len(cconn.writes)-1)
	l.packetInput(vfCopy(cconn.writes[first].data), vfClientAddr)
	created := len(l.sessions)
	vfAssert("c11/at-most-one-session-per-peer", created <= 1)
	for i, w := range cconn.writes {
		if i != first {
			l.packetInput(vfCopy(w.data), vfClientAddr)
		}
	}
	vfReach("post")
	vfAssert("c11/one-session-once-there-is-room", len(l.sessions) == 1)
	vfAssert("c11/one-accept-once-there-is-room", len(l.chAccepts) == acceptBacklog)
	// drain the stale nil entries; the last one is the new session
	var s *UDPSession
	for len(l.chAccepts) > 0 {
		s = <-l.chAccepts
	}
	vfAssert("c11/accepted-is-the-table-entry", s != nil && l.sessions[string(vfClientAddr)] == s)
	if s != nil {
		vfAssert("c11/conv-is-the-peer's", s.GetConv() == client.GetConv())
	}
}

// (3b) connect / close / reconnect from the same address with a new conversation: the closed
// session leaves the table, the new conversation gets a fresh, empty session and exactly one
// Accept, and nothing of the new conversation reaches the closed session.
func vfH_C11_close_reconnect() {
	ck := []int{vfCipherNil, vfCipherNone}[vfPick("cipher", 0, 1)]
	d, p := vfPickFEC()
	pr := vfConnect(ck, d, p, 1)
	vfAssert("connect/accepted", pr.srv != nil)
	if pr.srv == nil {
		vfStop()
	}
	old := pr.srv
	b := make([]byte, 8)
	n, _ := old.Read(b)
	vfAssert("reconnect/first-conversation-delivered", n == 3)
	vfAssert("reconnect/first-close", old.Close() == nil)
	vfAssert("c11/closed-session-leaves-the-table", len(pr.l.sessions) == 0)
	vfReach("closed")
	conn2 := vfNewConn()
	c2 := vfNewSession(vfU32("conv2"), d, p, nil, conn2, vfServerAddr, vfMakeCipher(ck))
	vfAssume(c2.kcp.conv != old.kcp.conv)
	c2.SetNoDelay(0, 100, 0, 1)
	c2.Write(vfBytes("n0", 2))
	vfDrainTx(c2)
	rq0, rn0 := old.kcp.rcv_queue.Len(), old.kcp.rcv_nxt
	for _, w := range conn2.writes {
		pr.l.packetInput(vfCopy(w.data), vfClientAddr)
	}
	vfReach("reconnected")
	vfAssert("c11/reconnect-creates-exactly-one-session", len(pr.l.sessions) == 1)
	vfAssert("c11/reconnect-produces-exactly-one-accept", len(pr.l.chAccepts) == 1)
	nw := pr.l.sessions[string(vfClientAddr)]
	vfAssert("c11/reconnect-session-is-new", nw != nil && nw != old)
	vfAssert("c11/closed-session-not-fed", vfAnd(old.kcp.rcv_queue.Len() == rq0, old.kcp.rcv_nxt == rn0))
	if nw != nil {
		vfAssert("c11/reconnect-session-has-the-new-conv", nw.kcp.conv == c2.kcp.conv)
		m, err := nw.Read(b)
		vfAssert("c11/reconnect-session-delivers-only-the-new-stream", err == nil && m == 2 && vfConcreteBool(vfBytesEq(b[:2], vfBytes("n0", 2))))
	}
}
