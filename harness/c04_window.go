package kcp

// C04 — window discipline, one inductive step from an arbitrary INV_KCP state.

import "sync/atomic"

const vfDgMax = 96

// vfOneSegmentDatagram: arbitrary bytes of arbitrary length 0..vfDgMax holding at most one
// complete segment (a second 24-byte header never fits behind the first payload).
func vfOneSegmentDatagram(name string) []byte {
	full := vfBytes(name, vfDgMax)
	n := vfIntRange(name+"_n", 0, vfDgMax)
	ln := vfLE32(full, 20)
	vfAssume(vfOr(n < 2*IKCP_OVERHEAD, uint64(n) < 2*IKCP_OVERHEAD+uint64(ln)))
	return full[:n]
}

// vfTwoSegmentDatagram: at most two complete segments.
func vfTwoSegmentDatagram(name string) []byte {
	full := vfBytes(name, vfDgMax)
	n := vfIntRange(name+"_n", 0, vfDgMax)
	l1 := vfIntRange(name+"_l1", 0, vfDgMax)
	vfAssume(vfImplies(n >= IKCP_OVERHEAD, vfOr(uint32(l1) == vfLE32(full, 20), vfAnd(l1 == vfDgMax, vfLE32(full, 20) > vfDgMax))))
	l1c := vfConcrete(l1)
	if l1c+2*IKCP_OVERHEAD <= vfDgMax {
		l2 := vfLE32(full, l1c+IKCP_OVERHEAD+20)
		vfAssume(vfOr(n < l1c+3*IKCP_OVERHEAD, uint64(n) < uint64(l1c)+3*IKCP_OVERHEAD+uint64(l2)))
	}
	return full[:n]
}

// vfCheckTruthfulWnd: every emitted segment advertises at most the real free space.
func vfCheckTruthfulWnd(l string, k *KCP, em []vfEmit) {
	free := int(k.rcv_wnd) - k.rcv_queue.Len()
	if free < 0 {
		free = 0
	}
	for _, e := range em {
		hs, ok := vfSpecDecode(e.data)
		vfAssert(l+"/emitted-datagram-well-formed", ok)
		for _, h := range hs {
			vfAssert(l+"/wnd-truthful", int(h.wnd) <= free)
			vfAssert(l+"/wnd-exact-mod-2^16", h.wnd == uint16(free))
			vfAssert(l+"/una=rcv_nxt", h.una == k.rcv_nxt)
			vfAssert(l+"/conv", h.conv == k.conv)
		}
	}
}

func vfInputStep(l string, shapes []vfShape, nc int, mtus []int) {
	var em []vfEmit
	k := vfNewKCP("", vfCfg{mtus: mtus, nc: nc}, &em)
	vfArbitraryKCP("", k, vfPickShapeFrom(shapes))
	if vfTier() == 0 {
		vfAssume(k.probe == 0)
	}
	vfReach("pre")
	vfSetClock(vfU32("now"))
	var dg []byte
	if vfTier() > 0 && vfPick("segs", 1, 2) == 2 {
		dg = vfTwoSegmentDatagram("dg")
	} else {
		dg = vfOneSegmentDatagram("dg")
	}
	ptype := PacketType(vfIntRange("ptype", 0, 1))
	una0, nxt0, cwnd0, rmt0 := k.snd_una, k.snd_nxt, k.cwnd, k.rmt_wnd
	k.Input(dg, ptype, vfBool("ackNoDelay"))
	vfReach("post")
	// window advertisements are only believed from packets that came over the wire
	vfAssert(l+"/fec-recovered-packet-leaves-rmt_wnd", vfImplies(ptype == IKCP_PACKET_FEC, k.rmt_wnd == rmt0))
	vfCheckInv(l, k)
	vfCheckTruthfulWnd(l, k, em)
	// a peer can only move the send window forward, never beyond what was sent
	vfAssert(l+"/snd_una-monotone", vfAnd(k.snd_una-una0 <= nxt0-una0, k.snd_nxt-k.snd_una <= k.snd_wnd))
	if nc == 0 {
		// the ACK-driven growth runs only when snd_una advanced, and never beyond the peer's window
		lost := atomic.LoadUint64(&DefaultSnmp.LostSegs)
		retr := atomic.LoadUint64(&DefaultSnmp.RetransSegs)
		vfAssert(l+"/cwnd-grows-only-on-una-advance", vfImplies(vfAnd(k.snd_una == una0, retr == 0), vfOr(k.cwnd == cwnd0, vfAnd(cwnd0 == 0, k.cwnd == 1))))
		vfAssert(l+"/rto-flush-resets-cwnd", vfImplies(lost > 0, k.cwnd == 1))
	}
}

// receiver side: arbitrary datagram against arbitrary receive queues
func vfH_C04_input_recv() { vfInputStep("input", vfShapesRecv, 1, []int{50, 1400}) }

// sender side: arbitrary datagram (forged una / ACK sn / wnd) against arbitrary in-flight data
func vfH_C04_input_send() { vfInputStep("input", vfShapesSend, 1, []int{50, 1400}) }

// sender side with congestion control on (concrete MSS: the cwnd arithmetic is non-linear)
func vfH_C04_input_cc() { vfInputStep("inputcc", vfShapesSend, 0, []int{25, 28, 1400}) }

func vfH_C04_flush() {
	var em []vfEmit
	k := vfNewKCP("", vfCfg{mtus: []int{60, 1400}, nc: 1}, &em)
	sh := vfPickShape()
	vfArbitraryKCP("", k, sh)
	vfReach("pre")
	vfSetClock(vfU32("now"))
	ft := FlushType(vfPick("ft", 1, 2))
	nxt0, una0 := k.snd_nxt, k.snd_una
	lim := k.snd_wnd
	if k.rmt_wnd < lim {
		lim = k.rmt_wnd
	}
	k.flush(ft)
	vfReach("post")
	vfCheckInv("flush", k)
	vfCheckTruthfulWnd("flush", k, em)
	moved := k.snd_nxt - nxt0
	vfAssert("flush/una-unchanged", k.snd_una == una0)
	vfAssert("flush/moved<=queued", moved <= uint32(sh.sndQ))
	vfAssert("flush/queue-shrinks-by-moved", uint32(k.snd_queue.Len()) == uint32(sh.sndQ)-moved)
	// the last admitted segment went out while fewer than min(snd_wnd, rmt_wnd) were outstanding
	vfAssert("flush/admission-rule", vfImplies(moved > 0, nxt0+moved-1-una0 < lim))
	vfAssert("flush/acklist-emptied", len(k.acklist) == 0)
	vfAssert("flush/probe-cleared", k.probe == 0)
}

func vfH_C04_flush_cc() {
	var em []vfEmit
	k := vfNewKCP("", vfCfg{mtus: []int{25, 28, 1400}, nc: 0}, &em)
	sh := vfPickShape()
	vfArbitraryKCP("", k, sh)
	vfAssume(k.nocwnd == 0)
	vfReach("pre")
	vfSetClock(vfU32("now"))
	nxt0, una0 := k.snd_nxt, k.snd_una
	lim := k.snd_wnd
	if k.rmt_wnd < lim {
		lim = k.rmt_wnd
	}
	if k.cwnd < lim {
		lim = k.cwnd
	}
	k.flush(IKCP_FLUSH_FULL)
	vfReach("post")
	vfCheckWindows("flushcc", k)
	moved := k.snd_nxt - nxt0
	vfAssert("flushcc/admission-rule", vfImplies(moved > 0, nxt0+moved-1-una0 < lim))
	lost := atomic.LoadUint64(&DefaultSnmp.LostSegs)
	vfAssert("flushcc/rto-resets-cwnd", vfImplies(lost > 0, k.cwnd == 1))
	vfAssert("flushcc/cwnd>=1-after-flush", k.cwnd >= 1)
}

func vfH_C04_recv() {
	k := vfNewKCP("", vfCfg{symbolicMTU: true}, nil)
	sh := vfPickShape()
	vfArbitraryKCP("", k, sh)
	vfReach("pre")
	bl := []int{0, 1, 3, 8}[vfPick("buflen", 0, 3)]
	buf := make([]byte, bl)
	wasFull := uint32(sh.rcvQ) >= k.rcv_wnd
	n := k.Recv(buf)
	vfReach("post")
	vfCheckInv("recv", k)
	vfAssert("recv/ret-range", vfAnd(n >= -2, n <= bl))
	if n >= 0 {
		// a reader that frees a full queue must schedule a window update (C03)
		vfAssert("recv/tell-after-full", vfImplies(vfAnd(wasFull, uint32(k.rcv_queue.Len()) < k.rcv_wnd), k.probe&IKCP_ASK_TELL != 0))
	} else {
		vfAssert("recv/no-effect-on-error", k.rcv_queue.Len() == sh.rcvQ)
	}
}

func vfH_C04_send() {
	k := vfNewKCP("", vfCfg{mtus: []int{25, 26, 28, 1400}, nc: -1}, nil)
	sh := vfPickShape()
	vfArbitraryKCP("", k, sh)
	vfReach("pre")
	bl := []int{0, 1, 2, 5, 9}[vfPick("buflen", 0, 4)]
	buf := vfBytes("payload", bl)
	q0 := k.snd_queue.Len()
	ret := k.Send(buf)
	vfReach("post")
	vfCheckInv("send", k)
	vfAssert("send/empty-refused", (bl == 0) == (ret == -1))
	if ret < 0 {
		vfAssert("send/no-effect-on-error", k.snd_queue.Len() == q0)
	}
	vfAssert("send/inflight-untouched", uint32(k.snd_buf.Len()) == uint32(sh.sndBuf))
}

// C04, last clause: a session's Write is admitted only while fewer than a send window of
// segments are pending, and otherwise blocks without queueing anything. Sequential: the call
// is run until it returns or blocks (the wake-up side is C13).
func vfH_C04_session_write_admission() {
	conn := vfNewConn()
	s := vfNewSession(vfU32("conv"), 0, 0, nil, conn, vfServerAddr, nil)
	s.SetNoDelay(0, 100, 0, 1)
	w := vfPick("snd_wnd", 1, 3)
	s.SetWindowSize(w, 32)
	s.SetWriteDelay(vfPick("writeDelay", 0, 1) == 1)
	vfAssert("adm/mtu", s.SetMtu(IKCP_OVERHEAD+3))
	stream := vfPick("stream", 0, 1) == 1
	if stream {
		s.SetStreamMode(true)
	}
	vfSetClock(vfU32("t0"))
	vfReach("pre")
	sawBlock := false
	for i := 0; i < 5 && !sawBlock; i++ {
		before := s.kcp.WaitSnd()
		l := []int{1, 3, 4, 7}[vfPick(vfName("wlen", i), 0, 3)]
		var n int
		var err error
		blocked := vfCallMayBlock(func() { n, err = s.Write(vfBytes(vfName("w", i), l)) })
		vfAssert("c04/write-admitted-iff-fewer-than-a-send-window-pending", blocked == (before >= w))
		if blocked {
			sawBlock = true
			vfAssert("c04/blocked-write-queues-nothing", s.kcp.WaitSnd() == before)
		} else {
			vfAssert("adm/admitted-write-reports-its-length", vfAnd(n == l, err == nil))
			vfAssert("adm/admitted-write-is-queued", s.kcp.WaitSnd() > before || stream) // stream mode may fill the last queued segment
		}
	}
	vfReach("post")
	s.Close() // native: releases a writer left blocked
}

// C04 "all window sizes set before traffic starts": WndSize installs exactly the windows it is
// given (a non-positive argument leaves that window as it was) — the limits the other harnesses
// assert are relative to these fields, so they must be the configured ones.
func vfH_C04_wndsize() {
	k := NewKCP(vfU32("conv"), func([]byte, int) {})
	s0, r0 := k.snd_wnd, k.rcv_wnd
	s, r := vfIntRange("sndwnd", -3, 70000), vfIntRange("rcvwnd", -3, 70000)
	vfReach("pre")
	k.WndSize(s, r)
	vfReach("post")
	vfAssert("wndsize/send-window-installed", k.snd_wnd == vfIteU32(s > 0, uint32(s), s0))
	vfAssert("wndsize/receive-window-installed", k.rcv_wnd == vfIteU32(r > 0, uint32(r), r0))
}
