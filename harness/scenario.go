package kcp

// S3 — bounded two-endpoint scenarios on the real core (DESIGN.md §1): two real KCP
// endpoints, symbolic payload bytes, symbolic 32-bit origins of both sequence spaces and of
// the clock, a symbolic fate (drop / deliver / deliver twice / delay one round) for each of the
// first K datagrams in either direction and a fair network afterwards. They compose the step
// lemmas end to end inside small bounds.

import "sync/atomic"

type vfEnd struct {
	k   *KCP
	out [][]byte // datagrams emitted since last collected
}

func vfNewEnd(conv uint32, mtu int) *vfEnd {
	e := &vfEnd{}
	e.k = NewKCP(conv, func(buf []byte, size int) {
		vfAssert("scenario/output-size", vfAnd(size > 0, size <= int(e.k.mtu)))
		d := make([]byte, size)
		copy(d, buf[:size])
		e.out = append(e.out, d)
	})
	vfAssume(e.k.SetMtu(mtu) == 0)
	return e
}

type vfScenario struct {
	a, b        *vfEnd
	clock       uint32
	faults      int // datagrams that still get a symbolic fate
	nfate       int
	delayedToB  [][]byte
	delayedToA  [][]byte
	written     []byte
	received    []byte
	msgs        [][]byte
	gotMsgs     int
	stream      bool
	readerPause int // rounds during which B's application does not read
	lossPending bool
	lossUna     uint32
	lossNxt     uint32
	lostSeen    uint64
	roundTraffic int // datagrams emitted by either end in the current round
	fateTrace    string // the fates applied so far, one digit each (part of history-specific labels)
}

// deliver applies fates to a batch of datagrams travelling to dst.
func (sc *vfScenario) deliver(batch [][]byte, dst *vfEnd, delayed *[][]byte) {
	in := append(*delayed, batch...)
	*delayed = nil
	for _, d := range in {
		fate := 1
		if sc.faults > 0 {
			sc.faults--
			fate = vfPick(vfName("fate", sc.nfate), 0, 3)
			sc.nfate++
			sc.fateTrace += string(rune('0' + fate))
		}
		switch fate {
		case 0: // dropped
		case 1:
			dst.k.Input(vfCopy(d), IKCP_PACKET_REGULAR, false)
		case 2: // duplicated
			dst.k.Input(vfCopy(d), IKCP_PACKET_REGULAR, false)
			dst.k.Input(vfCopy(d), IKCP_PACKET_REGULAR, false)
		case 3: // delayed behind the next round's datagrams (reordering)
			*delayed = append(*delayed, d)
		}
	}
}

// C04: with congestion control on, after a timeout loss nothing new goes out until the oldest
// segment outstanding at that moment has been acknowledged. Called after every sender-side step.
func (sc *vfScenario) checkTimeoutAdmission() {
	k := sc.a.k
	if k.nocwnd != 0 {
		return
	}
	if sc.lossPending && vfConcreteBool(_itimediff(k.snd_una, sc.lossUna) > 0) {
		sc.lossPending = false
	}
	if sc.lossPending {
		// the label names the fault history, so that a known finding suppresses exactly the
		// histories listed in known_findings.txt and any other failing history is still reported
		vfAssert("c04/nothing-new-after-timeout-loss-until-oldest-acked/fates="+sc.fateTrace, k.snd_nxt == sc.lossNxt)
	}
	if lost := atomic.LoadUint64(&DefaultSnmp.LostSegs); lost > sc.lostSeen {
		sc.lostSeen = lost
		if !sc.lossPending {
			sc.lossPending, sc.lossUna, sc.lossNxt = true, k.snd_una, k.snd_nxt
		}
	}
}

func (sc *vfScenario) read() {
	if sc.readerPause > 0 {
		sc.readerPause--
		return
	}
	for {
		buf := make([]byte, 16)
		n := sc.b.k.Recv(buf)
		if n < 0 {
			break
		}
		got := buf[:n]
		if sc.stream {
			sc.received = append(sc.received, got...)
			vfAssert("c01/reader-sees-a-prefix-of-what-was-written", len(sc.received) <= len(sc.written) && vfConcreteBool(vfBytesEq(sc.received, sc.written[:len(sc.received)])))
		} else {
			ok := sc.gotMsgs < len(sc.msgs) && len(got) == len(sc.msgs[sc.gotMsgs]) && vfConcreteBool(vfBytesEq(got, sc.msgs[sc.gotMsgs]))
			vfAssert("c01/messages-are-a-prefix-with-boundaries", ok)
			sc.gotMsgs++
			sc.received = append(sc.received, got...)
		}
	}
}

// round: both ends flush at the current clock, datagrams travel, the reader reads.
func (sc *vfScenario) round() uint32 {
	vfSetClock(sc.clock)
	ia := sc.a.k.flush(IKCP_FLUSH_FULL)
	sc.checkTimeoutAdmission()
	toB := sc.a.out
	sc.a.out = nil
	sc.roundTraffic = len(toB)
	sc.deliver(toB, sc.b, &sc.delayedToB)
	vfAssert("c04/receiver-queues-within-window", vfAnd(sc.b.k.rcv_queue.Len() <= int(sc.b.k.rcv_wnd), sc.b.k.rcv_buf.Len() <= int(sc.b.k.rcv_wnd)))
	sc.read()
	sc.b.k.flush(IKCP_FLUSH_FULL)
	toA := sc.b.out
	sc.b.out = nil
	sc.roundTraffic += len(toA)
	sc.deliver(toA, sc.a, &sc.delayedToA)
	sc.checkTimeoutAdmission()
	// acknowledgements may have triggered an immediate flush inside Input: those datagrams travel next round
	vfAssert("c04/in-flight-within-window", sc.a.k.snd_nxt-sc.a.k.snd_una <= sc.a.k.snd_wnd)
	return ia
}

// idleJump: when nothing is travelling (no datagram was emitted in the round just finished and
// none is delayed) the only thing that can happen next is a retransmission or probe timer of A firing;
// the clock moves straight to the earliest one instead of ticking through idle flushes (the
// back-off after k consecutive losses is 2^k * rto, far beyond any fixed number of 100 ms rounds).
func (sc *vfScenario) idleJump(step uint32) uint32 {
	if len(sc.delayedToA)+len(sc.delayedToB)+len(sc.a.out)+len(sc.b.out) > 0 || sc.roundTraffic > 0 {
		return step
	}
	best := int32(-1)
	for i := 0; i < sc.a.k.snd_buf.Len(); i++ {
		seg := vfRingAt(sc.a.k.snd_buf, i)
		if seg.acked != 0 || seg.xmit == 0 {
			continue
		}
		if d := _itimediff(seg.resendts, sc.clock); best < 0 || vfConcreteBool(d < best) {
			best = d
		}
	}
	// ... or, with the peer's window closed, the zero-window probe timer (it backs off 1.5x per probe)
	if sc.a.k.probe_wait > 0 && vfConcreteBool(sc.a.k.rmt_wnd == 0) {
		if d := _itimediff(sc.a.k.ts_probe, sc.clock); best < 0 || vfConcreteBool(d < best) {
			best = d
		}
	}
	if vfConcreteBool(best > int32(step)) {
		return uint32(best)
	}
	return step
}

func vfScenarioSetup(nc, resend, nodelay int, wndA, wndB int, stream bool, faults int) *vfScenario {
	conv := vfU32("conv")
	sc := &vfScenario{a: vfNewEnd(conv, IKCP_OVERHEAD+2), b: vfNewEnd(conv, IKCP_OVERHEAD+2), stream: stream, faults: faults}
	for _, e := range []*vfEnd{sc.a, sc.b} {
		e.k.NoDelay(nodelay, 100, resend, nc)
	}
	sc.a.k.WndSize(wndA, wndA)
	sc.b.k.WndSize(wndB, wndB)
	if stream {
		sc.a.k.stream, sc.b.k.stream = 1, 1
	}
	// arbitrary positions in both sequence spaces and on the clock
	o1, o2 := vfU32("origin_a"), vfU32("origin_b")
	sc.a.k.snd_una, sc.a.k.snd_nxt, sc.b.k.rcv_nxt = o1, o1, o1
	sc.b.k.snd_una, sc.b.k.snd_nxt, sc.a.k.rcv_nxt = o2, o2, o2
	sc.clock = vfU32("origin_clock")
	return sc
}

func (sc *vfScenario) write(name string, n int) {
	w := vfBytes(name, n)
	vfAssert("scenario/send-accepted", sc.a.k.Send(w) == 0)
	sc.written = append(sc.written, w...)
	sc.msgs = append(sc.msgs, w)
}

// C01 + C02: everything written is delivered intact and the backlog drains within a bounded
// number of rounds after at most K faults.
func vfH_C01_scenario() {
	stream := vfPick("stream", 0, 1) == 1
	K := 4
	if vfTier() > 0 {
		K = 6
	}
	wa, wb := []int{1, 3}[vfPick("wndA", 0, 1)], []int{1, 2}[vfPick("wndB", 0, 1)]
	if !stream {
		// a message needs a receive window of at least its fragment count (KCP protocol
		// limitation, DESIGN.md §6 "not findings"); the 3-byte message below has 2 fragments
		wb = 2
	}
	sc := vfScenarioSetup(1, 2, vfPick("nodelay", 0, 1), wa, wb, stream, K)
	sc.write("w0", 3)
	sc.write("w1", 1)
	vfReach("pre")
	R := 40
	done := -1
	for r := 0; r < R; r++ {
		step := sc.round()
		sc.clock += sc.idleJump(step)
		if done < 0 && sc.a.k.WaitSnd() == 0 && len(sc.received) == len(sc.written) {
			done = r
			break
		}
	}
	vfReach("post")
	vfAssert("c02/backlog-drains-after-the-network-heals", done >= 0)
	vfAssert("c01/everything-delivered-intact", len(sc.received) == len(sc.written) && vfConcreteBool(vfBytesEq(sc.received, sc.written)))
	vfAssert("c18/rto-in-bounds", vfAnd(sc.a.k.rx_rto >= sc.a.k.rx_minrto, sc.a.k.rx_rto <= IKCP_RTO_MAX))
}

// C03: the reader pauses while more than a window is written; every datagram during the first K
// is subject to loss; after the reader resumes the transfer completes.
func vfH_C03_scenario() {
	K := 3
	if vfTier() > 0 {
		K = 4
	}
	nc := vfPick("nc", 0, 1)
	sc := vfScenarioSetup(nc, 0, vfPick("nodelay", 0, 1), 4, vfPick("wndB", 1, 2), true, 0)
	if nc == 0 {
		sc.a.k.cwnd = 4 // congestion window already opened by earlier traffic
	}
	sc.readerPause = vfPick("pause", 2, 4)
	for i := 0; i < 3; i++ {
		sc.write(vfName("w", i), 2)
	}
	vfReach("pre")
	R := 60
	done := -1
	for r := 0; r < R; r++ {
		if sc.readerPause == 1 {
			sc.faults = K // the window updates / probes around the resume point are the ones at risk
		}
		step := sc.round()
		sc.clock += step
		vfAssert("c03/no-unbounded-buffering", sc.b.k.rcv_queue.Len()+sc.b.k.rcv_buf.Len() <= 2*int(sc.b.k.rcv_wnd))
		if sc.a.k.WaitSnd() == 0 && len(sc.received) == len(sc.written) {
			done = r
			break
		}
	}
	vfReach("post")
	vfAssert("c03/transfer-resumes-and-completes", done >= 0)
	vfAssert("c03/nothing-lost", len(sc.received) == len(sc.written) && vfConcreteBool(vfBytesEq(sc.received, sc.written)))
}

// C04: congestion control on — the timeout-admission clause across calls.
func vfH_C04_timeout_admission() {
	// four fates in both tiers: the assertion's label carries the fault history and the known
	// finding is listed per history
	K := 4
	sc := vfScenarioSetup(0, 2, vfPick("nodelay", 0, 1), 8, 8, false, 0)
	sc.a.k.cwnd = 3 // opened by earlier loss-free traffic
	sc.a.k.ssthresh = 8
	for i := 0; i < 6; i++ {
		sc.write(vfName("w", i), 1)
	}
	vfReach("pre")
	sc.faults = K
	for r := 0; r < 14; r++ {
		step := sc.round()
		sc.clock += step
	}
	vfReach("post")
}

// C18(c): a clean path — no loss, no duplication, no reordering, round trip below the minimum
// RTO, reader keeping up — transmits every segment exactly once.
func vfH_C18_clean_path() {
	stream := vfPick("stream", 0, 1) == 1
	nc := vfPick("nc", 0, 1)
	sc := vfScenarioSetup(nc, vfPick("resend", 0, 2), vfPick("nodelay", 0, 1), vfPick("wndA", 1, 4), 4, stream, 0)
	nw := vfPick("writes", 1, 3)
	for i := 0; i < nw; i++ {
		sc.write(vfName("w", i), 1+i)
	}
	vfReach("pre")
	// both ends flush every D ms with 2D + peer interval below the minimum RTO: here the whole
	// round trip happens inside one round, rounds are `step` apart
	step := uint32(vfPick("step", 1, 2) * 10)
	for r := 0; r < 16; r++ {
		sc.round()
		sc.clock += step
	}
	vfReach("post")
	vfAssert("c18/everything-delivered", sc.a.k.WaitSnd() == 0 && len(sc.received) == len(sc.written))
	vfAssert("c18/no-retransmission-on-a-clean-path", atomic.LoadUint64(&DefaultSnmp.RetransSegs) == 0)
	vfAssert("c18/no-repeated-segment-seen", atomic.LoadUint64(&DefaultSnmp.RepeatSegs) == 0)
}
