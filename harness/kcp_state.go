package kcp

// Arbitrary valid KCP states (INV_KCP, DESIGN.md §3.1) for the S1 harnesses.
//
// Configuration goes through the real setters (SetMtu, WndSize, NoDelay); the
// dynamic part is built by assigning symbolic fields and pushing symbolic
// segments through the real RingBuffer / heap code, constrained only by the
// representation invariant. The heap shapes (queue lengths, which snd_buf
// segments are acked, payload lengths) are concrete per path and come from a
// small family; everything scalar is symbolic.

import "container/heap"

type vfShape struct {
	sndBuf, sndQ, rcvQ, rcvBuf, acks int
}

var vfShapesQuick = []vfShape{
	{0, 0, 0, 0, 0},
	{1, 0, 0, 0, 0},
	{2, 1, 0, 0, 1},
	{0, 0, 1, 1, 0},
	{0, 1, 2, 0, 1},
	{1, 0, 0, 2, 2},
	{1, 2, 1, 1, 0},
}

func vfShapes() []vfShape {
	if vfTier() == 0 {
		return vfShapesQuick
	}
	var out []vfShape
	for a := 0; a <= 2; a++ {
		for b := 0; b <= 1; b++ {
			for c := 0; c <= 2; c++ {
				for d := 0; d <= 2; d++ {
					for e := 0; e <= 1; e++ {
						out = append(out, vfShape{a, b, c, d, e * 2})
					}
				}
			}
		}
	}
	return out
}

func vfPickShape() vfShape {
	s := vfShapes()
	return s[vfPick("shape", 0, len(s)-1)]
}

// Focused families for Input: the flush it may trigger is verified on its own from every
// state (vfH_C04_flush), so here only one side of the connection carries state at a time
// (quick); thorough uses the full product.
var vfShapesRecv = []vfShape{{0, 0, 0, 0, 0}, {0, 0, 1, 1, 0}, {0, 0, 2, 0, 1}, {0, 0, 0, 2, 2}, {0, 0, 1, 2, 0}}
var vfShapesSend = []vfShape{{1, 0, 0, 0, 0}, {2, 0, 0, 0, 0}, {2, 1, 0, 0, 0}, {1, 2, 0, 0, 0}}

func vfPickShapeFrom(quick []vfShape) vfShape {
	s := quick
	if vfTier() > 0 {
		s = vfShapes()
	}
	return s[vfPick("shape", 0, len(s)-1)]
}

// vfPickShapeRecvSide: quick: the focused receive-side family; thorough: the full product of the
// receive side (delivery queue, reorder buffer, owed acks: 0..2 each) over an empty and a
// one-segment send side (the send side only matters for the flush Input may trigger).
func vfPickShapeRecvSide() vfShape {
	s := vfShapesRecv
	if vfTier() > 0 {
		s = nil
		for a := 0; a <= 1; a++ {
			for c := 0; c <= 2; c++ {
				for d := 0; d <= 2; d++ {
					for e := 0; e <= 2; e++ {
						s = append(s, vfShape{a, 0, c, d, e})
					}
				}
			}
		}
	}
	return s[vfPick("shape", 0, len(s)-1)]
}

type vfEmit struct {
	data []byte
}

type vfCfg struct {
	symbolicMTU bool  // mtu symbolic (then congestion control is off: the cwnd arithmetic is non-linear in mss)
	mtus        []int // concrete MTUs to pick from otherwise
	nc          int   // 0: congestion control on, 1: off, -1: both (forks)
	wndMax      int
}

// vfNewKCP: a KCP configured through the real setters with symbolic settings.
func vfNewKCP(p string, cfg vfCfg, emitted *[]vfEmit) *KCP {
	var k *KCP
	k = NewKCP(vfU32(p+"conv"), func(buf []byte, size int) {
		// C10 core clause: never more than the MTU, never empty
		vfAssert("output/size<=mtu", size <= int(k.mtu))
		vfAssert("output/size>0", size > 0)
		vfAssert("output/size<=len(buf)", size <= len(buf))
		if emitted != nil {
			sz := vfConcrete(size)
			d := make([]byte, sz)
			copy(d, buf[:sz])
			*emitted = append(*emitted, vfEmit{d})
		}
	})
	nc := cfg.nc
	var mtu int
	if cfg.symbolicMTU {
		nc = 1
		mtu = vfIntRange(p+"mtu", IKCP_OVERHEAD+1, mtuLimit+IKCP_OVERHEAD)
	} else {
		mtu = cfg.mtus[vfPick(p+"mtuidx", 0, len(cfg.mtus)-1)]
		if nc < 0 {
			nc = vfPick(p+"nc", 0, 1)
		}
	}
	vfAssume(k.SetMtu(mtu) == 0)
	wm := cfg.wndMax
	if wm == 0 {
		wm = 32768
	}
	k.WndSize(vfIntRange(p+"snd_wnd", 1, wm), vfIntRange(p+"rcv_wnd", 1, wm))
	k.NoDelay(vfIntRange(p+"nodelay", 0, 1), vfIntRange(p+"interval", 10, 5000), vfIntRange(p+"resend", 0, 1<<20), nc)
	k.stream = int32(vfIntRange(p+"stream", 0, 1))
	return k
}

func vfPoolBuf(n int) []byte { return defaultBufferPool.Get()[:n] }

// vfSegLen: payload length of the i-th queued segment of a queue. Deterministic (1,3,1,...;
// received segments start with an empty one) so that lengths do not multiply the path count;
// the MTU harnesses (C10) choose lengths relative to the MSS instead.
func vfSegLen(i int, k *KCP, allowZero bool) int {
	n := 1 + (i%2)*2
	if allowZero {
		n = []int{0, 2, 1}[i%3]
	}
	vfAssume(n <= int(k.mss))
	return n
}

// vfShift: C12's relational harnesses build a second copy of the same symbolic state with its
// own sequence numbers shifted by ds, the peer's by dr and every live timestamp by dt.
type vfShiftT struct{ ds, dr, dt uint32 }

var vfShiftCur vfShiftT

// vfSplitLive: the relational harnesses case-split "is this timestamp live?" (segment already
// transmitted, probe timer armed, Update() called) so that the shift is a plain +dt instead of
// an if-then-else term.
var vfSplitLive int

const (
	vfSplitSegs    = 1 // per in-flight segment: already transmitted or not
	vfSplitProbe   = 2 // probe timer armed or not (otherwise: disarmed)
	vfSplitUpdated = 4 // Update() called before or not (otherwise: never)
)

// vfArbitraryKCP makes the dynamic state arbitrary within INV_KCP for the given shape.
func vfArbitraryKCP(p string, k *KCP, sh vfShape) {
	z := vfShiftCur
	k.snd_una = vfU32(p+"snd_una") + z.ds
	k.snd_nxt = k.snd_una + uint32(sh.sndBuf)
	k.rcv_nxt = vfU32(p+"rcv_nxt") + z.dr
	k.rmt_wnd = uint32(vfU16(p + "rmt_wnd"))
	k.cwnd = vfU32(p + "cwnd")
	k.ssthresh = vfU32(p + "ssthresh")
	vfAssume(k.ssthresh >= IKCP_THRESH_MIN)
	k.incr = vfU32(p + "incr")
	k.rx_srtt = int32(vfU32(p + "srtt"))
	k.rx_rttvar = int32(vfU32(p + "rttvar"))
	vfAssume(k.rx_srtt >= 0)
	vfAssume(k.rx_rttvar >= 0)
	k.rx_rto = vfU32(p + "rx_rto")
	vfAssume(k.rx_rto >= k.rx_minrto)
	vfAssume(k.rx_rto <= IKCP_RTO_MAX)
	k.probe = uint32(vfIntRange(p+"probe", 0, 3))
	k.probe_wait = vfU32(p + "probe_wait")
	vfAssume(vfOr(k.probe_wait == 0, vfAnd(k.probe_wait >= IKCP_PROBE_INIT, k.probe_wait <= IKCP_PROBE_LIMIT)))
	k.ts_probe = vfU32(p + "ts_probe")
	// a disarmed probe timer and a never-updated flush timer hold their initial constants
	k.ts_flush = vfU32(p + "ts_flush")
	k.updated = uint32(vfIntRange(p+"updated", 0, 1))
	if vfSplitLive != 0 {
		if vfSplitLive&vfSplitProbe != 0 && vfPick(p+"probe-armed", 0, 1) == 1 {
			vfAssume(k.probe_wait != 0)
			k.ts_probe += z.dt
		} else {
			k.probe_wait, k.ts_probe = 0, 0
		}
		if vfSplitLive&vfSplitUpdated != 0 && vfPick(p+"updated-once", 0, 1) == 1 {
			k.updated = 1
			k.ts_flush += z.dt
		} else {
			k.updated, k.ts_flush = 0, IKCP_INTERVAL
		}
	} else {
		vfAssume(vfImplies(k.probe_wait == 0, k.ts_probe == 0))
		k.ts_probe += vfIteU32(k.probe_wait != 0, z.dt, 0)
		vfAssume(vfImplies(k.updated == 0, k.ts_flush == IKCP_INTERVAL))
		k.ts_flush += vfIteU32(k.updated != 0, z.dt, 0)
	}
	k.state = vfIteU32(vfBool(p+"dead"), 0xFFFFFFFF, 0)

	// sender: snd_buf holds snd_una .. snd_nxt-1, at most snd_wnd of them
	vfAssume(uint32(sh.sndBuf) <= k.snd_wnd)
	for i := 0; i < sh.sndBuf; i++ {
		q := vfName(p+"sb", i)
		var seg segment
		seg.conv = k.conv
		seg.cmd = IKCP_CMD_PUSH
		seg.sn = k.snd_una + uint32(i)
		seg.frg = vfU8(q + "frg")
		seg.wnd = vfU16(q + "wnd")
		seg.una = vfU32(q + "una")
		seg.ts = vfU32(q + "ts")
		seg.xmit = vfU32(q + "xmit")
		seg.rto = vfU32(q + "rto")
		seg.resendts = vfU32(q + "resendts")
		seg.fastack = vfU32(q + "fastack")
		if i == 0 || vfPick(q+"acked", 0, 1) == 0 {
			// the oldest segment is never acked-in-place: shrink_buf would have dropped it
			seg.acked = 0
			seg.data = vfPoolBuf(vfSegLen(i, k, false))
		} else {
			seg.acked = 1
		}
		// a transmitted segment has a timer armed no further than its rto ahead of its send time;
		// a segment that was never transmitted is as it came from the queue
		d := seg.resendts - seg.ts
		vfAssume(vfImplies(seg.xmit > 0, vfAnd(d <= seg.rto, seg.rto >= k.rx_minrto)))
		vfAssume(vfImplies(seg.xmit == 0, vfAnd(seg.ts == 0, vfAnd(seg.resendts == 0, seg.rto == 0))))
		if vfSplitLive != 0 {
			if vfPick(q+"sent", 0, 1) == 1 {
				vfAssume(seg.xmit > 0)
				seg.ts += z.dt
				seg.resendts += z.dt
			} else {
				seg.xmit, seg.ts, seg.resendts, seg.rto = 0, 0, 0, 0
			}
		} else {
			seg.ts += vfIteU32(seg.xmit > 0, z.dt, 0)
			seg.resendts += vfIteU32(seg.xmit > 0, z.dt, 0)
		}
		vfAssume(seg.xmit < k.dead_link+10)
		k.snd_buf.Push(seg)
	}
	for i := 0; i < sh.sndQ; i++ {
		q := vfName(p+"sq", i)
		var seg segment
		seg.data = vfPoolBuf(vfSegLen(i+1, k, false))
		seg.frg = vfU8(q + "frg")
		vfAssume(vfImplies(k.stream != 0, seg.frg == 0))
		k.snd_queue.Push(seg)
	}

	// receiver: rcv_queue holds the consecutive run ending at rcv_nxt-1
	vfAssume(uint32(sh.rcvQ) <= k.rcv_wnd)
	for j := 0; j < sh.rcvQ; j++ {
		q := vfName(p+"rq", j)
		var seg segment
		seg.conv = k.conv
		seg.cmd = IKCP_CMD_PUSH
		seg.sn = k.rcv_nxt - uint32(sh.rcvQ) + uint32(j)
		seg.frg = vfU8(q + "frg")
		seg.wnd = vfU16(q + "wnd")
		seg.ts = vfU32(q + "ts")
		seg.una = vfU32(q + "una")
		seg.data = vfPoolBuf(vfSegLen(j, k, true))
		k.rcv_queue.Push(seg)
	}
	// rcv_buf: distinct numbers inside the window, through the real heap
	for j := 0; j < sh.rcvBuf; j++ {
		q := vfName(p+"rb", j)
		var seg segment
		seg.conv = k.conv
		seg.cmd = IKCP_CMD_PUSH
		seg.sn = vfU32(q+"sn") + z.dr
		off := seg.sn - k.rcv_nxt
		vfAssume(off < k.rcv_wnd)
		// nothing deliverable is stuck (R3): if the queue has room the next number is not buffered
		vfAssume(vfImplies(uint32(sh.rcvQ) < k.rcv_wnd, off != 0))
		for _, o := range k.rcv_buf.segments {
			vfAssume(o.sn != seg.sn)
		}
		seg.frg = vfU8(q + "frg")
		seg.wnd = vfU16(q + "wnd")
		seg.ts = vfU32(q + "ts")
		seg.una = vfU32(q + "una")
		seg.data = vfPoolBuf(vfSegLen(j+1, k, true))
		heap.Push(k.rcv_buf, seg)
	}
	// ack list: any numbers (a duplicate of an ancient segment is acknowledged too)
	for j := 0; j < sh.acks; j++ {
		q := vfName(p+"ack", j)
		sn := vfU32(q+"sn") + z.dr
		k.acklist = append(k.acklist, ackItem{sn, vfU32(q + "ts")})
	}
}

// vfRingAt: j-th live element of a ring (concrete layout).
func vfRingAt(r *RingBuffer[segment], j int) *segment {
	return &r.elements[(r.head+j)%len(r.elements)]
}

// vfCheckWindows asserts the buffering limits of C04 (property level).
func vfCheckWindows(l string, k *KCP) {
	vfAssert(l+"/rcv_queue<=rcv_wnd", k.rcv_queue.Len() <= int(k.rcv_wnd))
	vfAssert(l+"/rcv_buf<=rcv_wnd", k.rcv_buf.Len() <= int(k.rcv_wnd))
	vfAssert(l+"/inflight<=snd_wnd", k.snd_nxt-k.snd_una <= k.snd_wnd)
	vfAssert(l+"/snd_buf-len=inflight", uint32(k.snd_buf.Len()) == k.snd_nxt-k.snd_una)
}

// vfCheckInv asserts that the representation invariant is preserved.
// Labels under "inv/" are internal representation (lemma level).
func vfCheckInv(l string, k *KCP) {
	vfCheckWindows(l, k)
	n := k.snd_buf.Len()
	for i := 0; i < n; i++ {
		s := vfRingAt(k.snd_buf, i)
		vfLemma(l+"/inv/snd_buf-consecutive", s.sn == k.snd_una+uint32(i))
		vfLemma(l+"/inv/snd_buf-acked-iff-nil", (s.acked == 1) == (s.data == nil))
		vfLemma(l+"/inv/snd_buf-acked-01", s.acked <= 1)
		if s.data != nil {
			vfAssert(l+"/snd_buf-len<=mss", len(s.data) <= int(k.mss))
		}
	}
	for i := 0; i < k.snd_queue.Len(); i++ {
		s := vfRingAt(k.snd_queue, i)
		vfLemma(l+"/inv/snd_queue-has-data", s.data != nil)
		if s.data != nil {
			vfAssert(l+"/snd_queue-len<=mss", vfAnd(len(s.data) >= 1, len(s.data) <= int(k.mss)))
		}
	}
	m := k.rcv_queue.Len()
	for j := 0; j < m; j++ {
		s := vfRingAt(k.rcv_queue, j)
		vfAssert(l+"/rcv_queue-consecutive", s.sn == k.rcv_nxt-uint32(m)+uint32(j))
		vfLemma(l+"/inv/rcv_queue-has-data", s.data != nil)
	}
	for j := 0; j < k.rcv_buf.Len(); j++ {
		s := &k.rcv_buf.segments[j]
		vfAssert(l+"/rcv_buf-in-window", s.sn-k.rcv_nxt < k.rcv_wnd)
		vfLemma(l+"/inv/rcv_buf-has-data", s.data != nil)
		for i := 0; i < j; i++ {
			vfAssert(l+"/rcv_buf-distinct", k.rcv_buf.segments[i].sn != s.sn)
		}
		if j > 0 {
			par := &k.rcv_buf.segments[(j-1)/2]
			vfLemma(l+"/inv/rcv_buf-heap-order", _itimediff(s.sn, par.sn) > 0)
		}
		vfLemma(l+"/inv/rcv_buf-marked", k.rcv_buf.Has(s.sn))
	}
	vfLemma(l+"/inv/marks-count", len(k.rcv_buf.marks) == k.rcv_buf.Len())
	for j := 0; j < k.rcv_buf.Len(); j++ {
		// R3: nothing deliverable is stuck behind a free slot — wherever it sits in the heap
		vfAssert(l+"/nothing-deliverable-stuck", vfImplies(uint32(m) < k.rcv_wnd, k.rcv_buf.segments[j].sn != k.rcv_nxt))
	}
	vfAssert(l+"/rto-bounds", vfAnd(k.rx_rto >= k.rx_minrto, k.rx_rto <= IKCP_RTO_MAX))
	vfLemma(l+"/inv/srtt>=0", vfAnd(k.rx_srtt >= 0, k.rx_rttvar >= 0))
	vfLemma(l+"/inv/ssthresh>=2", k.ssthresh >= IKCP_THRESH_MIN)
	vfLemma(l+"/inv/probe_wait-range", vfOr(k.probe_wait == 0, vfAnd(k.probe_wait >= IKCP_PROBE_INIT, k.probe_wait <= IKCP_PROBE_LIMIT)))
}

// ---- independent 24-byte header decoder written from the README layout ----

type vfHdr struct {
	conv uint32
	cmd  uint8
	frg  uint8
	wnd  uint16
	ts   uint32
	sn   uint32
	una  uint32
	ln   uint32
	data []byte
}

func vfLE32(b []byte, o int) uint32 {
	return uint32(b[o]) | uint32(b[o+1])<<8 | uint32(b[o+2])<<16 | uint32(b[o+3])<<24
}

// vfSpecDecode splits a datagram into segments; ok=false if it is not a clean concatenation.
func vfSpecDecode(d []byte) (hs []vfHdr, ok bool) {
	o := 0
	for o < len(d) {
		if len(d)-o < 24 {
			return hs, false
		}
		var h vfHdr
		h.conv = vfLE32(d, o)
		h.cmd = d[o+4]
		h.frg = d[o+5]
		h.wnd = uint16(d[o+6]) | uint16(d[o+7])<<8
		h.ts = vfLE32(d, o+8)
		h.sn = vfLE32(d, o+12)
		h.una = vfLE32(d, o+16)
		h.ln = vfLE32(d, o+20)
		o += 24
		ln := vfConcrete(int(h.ln))
		if ln > len(d)-o {
			return hs, false
		}
		h.data = d[o : o+ln]
		o += ln
		hs = append(hs, h)
	}
	return hs, true
}
