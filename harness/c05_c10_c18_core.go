package kcp

// Core-level harnesses for C05 (no datagram can crash or bloat), C10 (MTU)
// and C18 (RTO bounds). All of them are one step from an arbitrary INV_KCP
// state; implicit Go panics (index, slice bounds, nil, division) are solver
// queries on every path and are reported as findings.

// ---------------- C05 ----------------

const vfBigDg = 2048

// Arbitrary bytes, any length 0..2048, at most one complete segment (quick) — the
// segment's own length field is a free 32-bit value.
func vfH_C05_input_big() {
	k := vfNewKCP("", vfCfg{mtus: []int{1400}, nc: 1}, nil)
	vfArbitraryKCP("", k, vfPickShapeFrom(vfShapesRecv))
	vfAssume(k.probe == 0)
	vfReach("pre")
	vfSetClock(vfU32("now"))
	full := vfBytes("dg", vfBigDg)
	n := vfIntRange("dg_n", 0, vfBigDg)
	ln := vfLE32(full, 20)
	vfAssume(vfOr(n < 2*IKCP_OVERHEAD, uint64(n) < 2*IKCP_OVERHEAD+uint64(ln)))
	gets0, acks0, rb0, rq0 := vfPoolGets(), len(k.acklist), k.rcv_buf.Len(), k.rcv_queue.Len()
	k.Input(full[:n], PacketType(vfIntRange("ptype", 0, 1)), vfBool("ackNoDelay"))
	vfReach("post")
	vfCheckWindows("inputbig", k)
	// bloat: one segment costs at most one buffer, one ack entry, one reorder-buffer slot
	vfAssert("inputbig/pool-gets<=1", vfPoolGets()-gets0 <= 1)
	vfAssert("inputbig/acklist-grows<=1", len(k.acklist) <= acks0+1)
	vfAssert("inputbig/held-segments-grow<=1", k.rcv_buf.Len()+k.rcv_queue.Len() <= rb0+rq0+1)
	vfAssert("inputbig/marks=rcv_buf", len(k.rcv_buf.marks) == k.rcv_buf.Len())
}

// Up to three complete segments of small payloads in a datagram of 0..160 bytes (thorough).
func vfH_C05_input_multi_thorough() {
	k := vfNewKCP("", vfCfg{mtus: []int{50, 1400}, nc: 1}, nil)
	vfArbitraryKCP("", k, vfPickShapeFrom(vfShapesRecv))
	vfAssume(k.probe == 0)
	vfReach("pre")
	vfSetClock(vfU32("now"))
	const N = 160
	full := vfBytes("dg", N)
	n := vfIntRange("dg_n", 0, N)
	// concretise the first two length fields (bounded) so that header offsets are concrete
	l1 := vfPick("l1", 0, 4)
	vfAssume(vfImplies(n >= 24, vfOr(uint32(l1) == vfLE32(full, 20), vfAnd(l1 == 4, vfLE32(full, 20) >= 4))))
	l2 := vfPick("l2", 0, 4)
	vfAssume(vfImplies(n >= 48+l1, vfOr(uint32(l2) == vfLE32(full, 24+l1+20), vfAnd(l2 == 4, vfLE32(full, 24+l1+20) >= 4))))
	l3 := vfLE32(full, 48+l1+l2+20)
	vfAssume(vfOr(n < 96+l1+l2, uint64(n) < uint64(96+l1+l2)+uint64(l3)))
	acks0, held0 := len(k.acklist), k.rcv_buf.Len()+k.rcv_queue.Len()
	k.Input(full[:n], PacketType(vfIntRange("ptype", 0, 1)), vfBool("ackNoDelay"))
	vfReach("post")
	vfCheckInv("inputmulti", k)
	vfAssert("inputmulti/acklist-grows<=3", len(k.acklist) <= acks0+3)
	vfAssert("inputmulti/held-segments-grow<=3", k.rcv_buf.Len()+k.rcv_queue.Len() <= held0+3)
}

// ---------------- C10 (core) ----------------

// SetMtu at any point of a connection's life: a value it accepts is honoured by every later
// flush and Send (no panic, no datagram above the MTU: asserted in the output callback), a
// value it refuses changes nothing.
func vfH_C10_setmtu_then_flush() {
	var em []vfEmit
	m0 := []int{1400, 100, 27}[vfPick("m0idx", 0, 2)]
	var k *KCP
	k = NewKCP(vfU32("conv"), func(buf []byte, size int) {
		vfAssert("output/size<=mtu", size <= int(k.mtu))
		vfAssert("output/size>0", size > 0)
		vfAssert("output/size<=len(buf)", size <= len(buf))
		em = append(em, vfEmit{nil})
	})
	vfAssume(k.SetMtu(m0) == 0)
	k.NoDelay(vfIntRange("nodelay", 0, 1), 10, vfIntRange("resend", 0, 4), 1)
	k.stream = int32(vfIntRange("stream", 0, 1))
	mss0 := m0 - IKCP_OVERHEAD
	// traffic before the change: queued and in-flight segments of the old maximum size (or 1 byte)
	nq := vfPick("queued", 0, 2)
	for i := 0; i < nq; i++ {
		l := []int{mss0, 1}[vfPick(vfName("qlen", i), 0, 1)]
		vfAssume(k.Send(vfBytes(vfName("w", i), l)) == 0)
	}
	vfSetClock(vfU32("t0"))
	if vfPick("flushed-before", 0, 1) == 1 {
		k.cwnd = 1
		k.flush(IKCP_FLUSH_FULL)
	}
	vfReach("pre")
	m1 := vfIntRange("m1", -(1 << 40), 1<<40)
	mtu0, mssOld, bufLen0 := k.mtu, k.mss, len(k.buffer)
	ret := k.SetMtu(m1)
	if ret != 0 {
		vfReach("refused")
		vfAssert("setmtu/refusal-has-no-effect", vfAnd(k.mtu == mtu0, vfAnd(k.mss == mssOld, len(k.buffer) == bufLen0)))
		return
	}
	vfReach("accepted")
	vfAssert("setmtu/accepted-value-installed", vfAnd(int(k.mtu) == m1, k.mss == k.mtu-IKCP_OVERHEAD))
	// later traffic: time passes (retransmission), the window opens
	k.rmt_wnd = uint32(vfU16("rmt_wnd"))
	vfSetClock(vfU32("t1"))
	k.flush(IKCP_FLUSH_FULL)
	vfReach("flushed")
}

func vfH_C10_setmtu_then_send() {
	var k *KCP
	k = NewKCP(vfU32("conv"), func(buf []byte, size int) {
		vfAssert("output/size<=mtu", size <= int(k.mtu))
		vfAssert("output/size>0", size > 0)
	})
	k.stream = int32(vfIntRange("stream", 0, 1))
	if vfPick("queued", 0, 1) == 1 {
		vfAssume(k.Send(vfBytes("w0", 5)) == 0)
	}
	vfReach("pre")
	// large MTUs only: the fragment count stays <= 3 (small ones are covered by the flush harness)
	m1 := vfIntRange("m1", 700, 1<<40)
	vfAssume(k.SetMtu(m1) == 0)
	vfReach("accepted")
	l := []int{1, 1900}[vfPick("len", 0, 1)]
	ret := k.Send(vfBytes("w1", l))
	vfAssert("send-after-setmtu/accepted", ret == 0)
	vfSetClock(vfU32("t1"))
	k.cwnd = 8
	k.flush(IKCP_FLUSH_FULL)
	vfReach("flushed")
}

// flush from an arbitrary state with a fully symbolic MTU: sizes handed to the output callback.
func vfH_C10_flush_symbolic_mtu() {
	var em []vfEmit
	k := vfNewKCP("", vfCfg{symbolicMTU: true}, &em)
	sh := []vfShape{{1, 1, 0, 0, 1}, {2, 0, 1, 0, 2}, {0, 2, 0, 0, 0}}[vfPick("shape", 0, 2)]
	vfArbitraryKCP("", k, sh)
	vfReach("pre")
	vfSetClock(vfU32("now"))
	k.flush(IKCP_FLUSH_FULL)
	vfReach("post")
	for _, e := range em {
		hs, ok := vfSpecDecode(e.data)
		vfAssert("flushmtu/datagram-is-concatenation-of-segments", ok)
		for _, h := range hs {
			vfAssert("flushmtu/len-matches-payload", int(h.ln) == len(h.data))
		}
	}
}

// ---------------- C18 (a): RTO bounds ----------------

// The reported RTO stays in [minrto, 60000] for every acknowledgement timing: one Input of an
// arbitrary ACK-bearing datagram at an arbitrary clock from an arbitrary state (all srtt,
// rttvar >= 0 including values that overflow rttvar<<2).
func vfH_C18_rto_bounds() {
	k := vfNewKCP("", vfCfg{mtus: []int{1400}, nc: 1}, nil)
	vfArbitraryKCP("", k, []vfShape{{0, 0, 0, 0, 0}, {1, 0, 0, 0, 0}, {2, 0, 0, 0, 0}}[vfPick("shape", 0, 2)])
	vfAssume(k.probe == 0)
	vfReach("pre")
	vfSetClock(vfU32("now"))
	dg := vfOneSegmentDatagram("dg")
	k.Input(dg, PacketType(vfIntRange("ptype", 0, 1)), false)
	vfReach("post")
	vfAssert("rto/lower-bound", k.rx_rto >= k.rx_minrto)
	vfAssert("rto/upper-bound", k.rx_rto <= IKCP_RTO_MAX)
	vfAssert("rto/minrto-is-configured", k.rx_minrto == vfIteU32(k.nodelay != 0, IKCP_RTO_NDL, IKCP_RTO_MIN))
	vfLemma("rto/inv/srtt-rttvar>=0", vfAnd(k.rx_srtt >= 0, k.rx_rttvar >= 0))
}

// update_ack alone, for every rtt >= 0 and every non-negative srtt/rttvar.
func vfH_C18_update_ack() {
	k := NewKCP(1, func([]byte, int) {})
	k.NoDelay(vfIntRange("nodelay", 0, 1), vfIntRange("interval", 10, 5000), 0, 0)
	k.rx_srtt = int32(vfU32("srtt"))
	k.rx_rttvar = int32(vfU32("rttvar"))
	vfAssume(vfAnd(k.rx_srtt >= 0, k.rx_rttvar >= 0))
	rtt := int32(vfU32("rtt"))
	vfAssume(rtt >= 0)
	vfReach("pre")
	k.update_ack(rtt)
	vfReach("post")
	vfAssert("update_ack/lower-bound", k.rx_rto >= k.rx_minrto)
	vfAssert("update_ack/upper-bound", k.rx_rto <= IKCP_RTO_MAX)
	vfLemma("update_ack/inv/srtt>=0", k.rx_srtt >= 0)
	vfLemma("update_ack/inv/rttvar>=0", k.rx_rttvar >= 0)
}

// Initial state and NoDelay before traffic.
func vfH_C18_initial() {
	k := NewKCP(vfU32("conv"), func([]byte, int) {})
	vfAssert("initial/rto-in-bounds", vfAnd(k.rx_rto >= k.rx_minrto, k.rx_rto <= IKCP_RTO_MAX))
	k.NoDelay(vfIntRange("nodelay", -5, 5), vfIntRange("interval", -100, 100000), vfIntRange("resend", -5, 100), vfIntRange("nc", -5, 5))
	vfReach("post")
	vfAssert("nodelay/rto-in-bounds", vfAnd(k.rx_rto >= k.rx_minrto, k.rx_rto <= IKCP_RTO_MAX))
	vfAssert("nodelay/minrto", vfOr(k.rx_minrto == IKCP_RTO_NDL, k.rx_minrto == IKCP_RTO_MIN))
	vfAssert("nodelay/interval-range", vfAnd(k.interval >= 10, k.interval <= 5000))
}

// C18 "resend timestamp armed at (re)transmission": whatever happened to a segment before it
// first reached the wire — in particular an acknowledgement-only flush that already moved it
// into the send buffer some time earlier — its retransmission timer runs from the moment of
// its first transmission: a full RTO (never less than the minimum RTO) lies ahead, so a round
// trip below the minimum RTO can never be overtaken by the timer.
func vfH_C18_timer_runs_from_first_transmission() {
	var em []vfEmit
	k := vfNewKCP("", vfCfg{mtus: []int{60, 1400}, nc: 1}, &em)
	sh := []vfShape{{0, 1, 0, 0, 1}, {0, 2, 0, 0, 1}, {1, 1, 0, 0, 2}}[vfPick("shape", 0, 2)]
	vfArbitraryKCP("", k, sh)
	vfAssume(k.probe == 0)
	vfAssume(k.rmt_wnd >= 4)
	t1 := vfU32("t1")
	for i := 0; i < k.snd_buf.Len(); i++ {
		s := vfRingAt(k.snd_buf, i)
		age := _itimediff(t1, s.ts)
		vfAssume(vfImplies(s.xmit > 0, vfAnd(age >= 0, age < 1<<30)))
	}
	inflight0 := k.snd_buf.Len()
	vfReach("pre")
	vfSetClock(t1)
	k.flush(IKCP_FLUSH_ACKONLY) // e.g. triggered by incoming data with ackNoDelay
	delta := uint32(vfIntRange("delta", 0, 5000))
	t2 := t1 + delta
	n0 := len(em)
	vfSetClock(t2)
	k.flush(IKCP_FLUSH_FULL)
	vfReach("post")
	first := 0
	for i := inflight0; i < k.snd_buf.Len(); i++ {
		s := vfRingAt(k.snd_buf, i)
		if s.acked == 1 {
			continue
		}
		// segments that were still queued at t1 are on the wire for the first time now
		vfAssert("c18/first-transmission-happened", s.xmit == 1)
		vfAssert("c18/timer-runs-a-full-rto-from-first-transmission", _itimediff(s.resendts, t2) >= int32(k.rx_rto))
		vfAssert("c18/timer-not-before-the-minimum-rto", _itimediff(s.resendts, t2) >= int32(k.rx_minrto))
		first++
		vfReach("first-transmission")
	}
	_ = n0
}
