package kcp

// C17 — the timed scheduler under the cooperative goroutine mode: the real NewTimedSched with
// its real prepend and sched goroutines, submitters calling the real Put, virtual time, a timer
// model with both Go timer-channel semantics. Scheduler choices (which runnable goroutine, which
// ready select case) and pre-emptions are decisions explored within the bound.

import (
	"sync"
	"time"
)

type vfTask struct {
	deadline time.Time
	runs     int
	early    bool
	ranAt    int64
}

var vfTaskMu sync.Mutex

// symbolicDeadlines: the deadlines are symbolic offsets and the solver case-splits every comparison
// the scheduler and the timer model make (fewer tasks, no pre-emption: these runs are costly);
// otherwise deadlines come from a fixed set and the schedule bound is deeper.
func vfC17(workers int, async bool, submitters int, symbolicDeadlines bool) {
	preempt := 1
	ntasks := 3
	if vfTier() > 0 {
		preempt = 2
		ntasks = 4
	}
	if symbolicDeadlines {
		preempt, ntasks = 1, 3
		if vfTier() > 0 {
			preempt, ntasks = 2, 3
		}
	}
	vfGoroutineMode(preempt, async)
	ts := NewTimedSched(workers)
	t0 := time.Now()
	// symbolic deadlines: past, now, equal, increasing, decreasing, inside and beyond the observation
	// horizon all arise as solver cases of the comparisons the scheduler and the timer model make
	tasks := make([]*vfTask, ntasks)
	offsets := []time.Duration{-5 * time.Millisecond, 0, 10 * time.Millisecond, 20 * time.Millisecond, time.Hour}
	for i := range tasks {
		if symbolicDeadlines {
			off := vfIntRange(vfName("deadline_offset_ns", i), -int(time.Hour), int(time.Hour))
			tasks[i] = &vfTask{deadline: t0.Add(time.Duration(off))}
		} else {
			tasks[i] = &vfTask{deadline: t0.Add(offsets[vfPick(vfName("deadline", i), 0, len(offsets)-1)])}
		}
	}
	put := func(tk *vfTask) {
		ts.Put(func() {
			now := time.Now()
			vfTaskMu.Lock()
			tk.runs++
			if now.Before(tk.deadline) {
				tk.early = true
			}
			tk.ranAt = now.UnixNano()
			vfTaskMu.Unlock()
		}, tk.deadline)
	}
	vfReach("started")
	if submitters == 1 {
		for _, tk := range tasks {
			put(tk)
		}
	} else {
		done := make(chan struct{}, 2)
		go func() { put(tasks[0]); put(tasks[2%ntasks]); done <- struct{}{} }()
		go func() {
			put(tasks[1])
			if ntasks > 3 {
				put(tasks[3])
			}
			done <- struct{}{}
		}()
		<-done
		<-done
	}
	// let 50 ms of (virtual) time pass: every task due by then must have run
	vfQuiesce(int(50 * time.Millisecond))
	vfReach("quiescent")
	now := time.Now()
	vfTaskMu.Lock()
	for _, tk := range tasks {
		vfAssert("c17/never-early", !tk.early)
		vfAssert("c17/at-most-once", tk.runs <= 1)
		if vfConcreteBool(tk.deadline.Before(now)) {
			vfAssert("c17/due-task-has-run", tk.runs == 1)
		} else {
			vfAssert("c17/future-task-not-run", tk.runs == 0)
		}
	}
	vfTaskMu.Unlock()
	ts.Close()
	vfQuiesce(int(time.Millisecond))
	vfAssert("c17/close-stops-every-goroutine", vfLiveGoroutines() == 0)
	vfReach("closed")
}

func vfH_C17_one_worker()           { vfC17(1, false, 1, false) }
func vfH_C17_one_worker_async()     { vfC17(1, true, 1, false) }
func vfH_C17_two_workers()          { vfC17(2, false, 1, false) }
func vfH_C17_two_submitters()       { vfC17(1, false, 2, false) }
func vfH_C17_two_submitters_async() { vfC17(2, true, 2, false) }

func vfH_C17_symbolic_deadlines()       { vfC17(1, false, 1, true) }
func vfH_C17_symbolic_deadlines_async() { vfC17(1, true, 1, true) }
