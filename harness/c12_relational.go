package kcp

// C12 — wrap-around invariance as a 2-safety (relational) step: the same arbitrary state is
// built twice, the second copy with its own sequence numbers shifted by ds, the peer's by dr
// and every live timestamp (and the clock) by dt, all three fully symbolic. The same call with
// correspondingly shifted arguments is run on both; post-states, return values and emitted
// datagrams must be related by the same shifts. With induction over steps this is invariance
// of whole histories under all 2^32 x 2^32 x 2^32 offsets.

type vfDatagramFields struct {
	cmd             uint8
	frg             uint8
	wnd             uint16
	ts, sn, una     uint32
	ln              int
	payload         []byte
	conv            uint32
	trailingGarbage int
}

func vfEncodeDatagram(f vfDatagramFields) []byte {
	d := make([]byte, IKCP_OVERHEAD+f.ln+f.trailingGarbage)
	put32 := func(o int, v uint32) {
		d[o], d[o+1], d[o+2], d[o+3] = byte(v), byte(v>>8), byte(v>>16), byte(v>>24)
	}
	put32(0, f.conv)
	d[4], d[5] = f.cmd, f.frg
	d[6], d[7] = byte(f.wnd), byte(f.wnd>>8)
	put32(8, f.ts)
	put32(12, f.sn)
	put32(16, f.una)
	put32(20, uint32(f.ln))
	copy(d[IKCP_OVERHEAD:], f.payload)
	return d
}

var vfC12NoVariants bool

func vfPairOfStates(shapes []vfShape, nc int, mtus []int, split int) (k1, k2 *KCP, em1, em2 *[]vfEmit, z vfShiftT) {
	em1, em2 = new([]vfEmit), new([]vfEmit)
	vfIteLifting(true)
	vfSplitLive = vfSplitSegs | split
	// thorough: the quick family plus two-element variants (the full product is out of reach for
	// relational queries)
	if vfTier() > 0 && !vfC12NoVariants {
		var more []vfShape
		for _, q := range shapes {
			more = append(more, q)
			if q.sndBuf == 1 {
				more = append(more, vfShape{2, q.sndQ, q.rcvQ, q.rcvBuf, q.acks})
			}
			if q.rcvBuf == 1 {
				more = append(more, vfShape{q.sndBuf, q.sndQ, q.rcvQ, 2, q.acks})
			}
			if q.sndQ == 0 {
				more = append(more, vfShape{q.sndBuf, 1, q.rcvQ, q.rcvBuf, q.acks})
			}
		}
		shapes = more
	}
	sh := shapes[vfPick("shape", 0, len(shapes)-1)]
	k1 = vfNewKCP("", vfCfg{mtus: mtus, nc: nc}, em1)
	vfArbitraryKCP("", k1, sh)
	z = vfShiftT{vfU32("shift_ds"), vfU32("shift_dr"), vfU32("shift_dt")}
	vfShiftCur = z
	k2 = vfNewKCP("", vfCfg{mtus: mtus, nc: nc}, em2)
	vfArbitraryKCP("", k2, sh)
	vfShiftCur = vfShiftT{}
	vfSplitLive = 0
	// pooled payload buffers have unconstrained contents: make the two copies hold the same bytes
	sync := func(a, b *RingBuffer[segment]) {
		for i := 0; i < a.Len(); i++ {
			copy(vfRingAt(b, i).data, vfRingAt(a, i).data)
		}
	}
	sync(k1.snd_buf, k2.snd_buf)
	sync(k1.snd_queue, k2.snd_queue)
	sync(k1.rcv_queue, k2.rcv_queue)
	for i := range k1.rcv_buf.segments {
		copy(k2.rcv_buf.segments[i].data, k1.rcv_buf.segments[i].data)
	}
	return
}

// vfRelated: the second state is the first one shifted.
func vfRelated(l string, a, b *KCP, z vfShiftT) {
	vfAssert(l+"/snd_una", b.snd_una == a.snd_una+z.ds)
	vfAssert(l+"/snd_nxt", b.snd_nxt == a.snd_nxt+z.ds)
	vfAssert(l+"/rcv_nxt", b.rcv_nxt == a.rcv_nxt+z.dr)
	vfAssert(l+"/scalars", vfAnd(vfAnd(a.rmt_wnd == b.rmt_wnd, a.cwnd == b.cwnd), vfAnd(vfAnd(a.ssthresh == b.ssthresh, a.incr == b.incr), vfAnd(a.probe == b.probe, a.state == b.state))))
	vfAssert(l+"/rtt-estimator", vfAnd(a.rx_rto == b.rx_rto, vfAnd(a.rx_srtt == b.rx_srtt, a.rx_rttvar == b.rx_rttvar)))
	vfAssert(l+"/probe-timer", vfAnd(a.probe_wait == b.probe_wait, b.ts_probe == a.ts_probe+vfIteU32(a.probe_wait != 0, z.dt, 0)))
	vfAssert(l+"/flush-timer", vfAnd(a.updated == b.updated, b.ts_flush == a.ts_flush+vfIteU32(a.updated != 0, z.dt, 0)))
	vfAssert(l+"/queue-lengths", vfAnd(vfAnd(a.snd_buf.Len() == b.snd_buf.Len(), a.snd_queue.Len() == b.snd_queue.Len()), vfAnd(vfAnd(a.rcv_queue.Len() == b.rcv_queue.Len(), a.rcv_buf.Len() == b.rcv_buf.Len()), len(a.acklist) == len(b.acklist))))
	if a.snd_buf.Len() == b.snd_buf.Len() {
		for i := 0; i < a.snd_buf.Len(); i++ {
			s, t := vfRingAt(a.snd_buf, i), vfRingAt(b.snd_buf, i)
			live := vfIteU32(s.xmit > 0, z.dt, 0)
			// one query per field keeps each of them small
			vfAssert(l+"/snd_buf-segment/sn", t.sn == s.sn+z.ds)
			vfAssert(l+"/snd_buf-segment/xmit", s.xmit == t.xmit)
			vfAssert(l+"/snd_buf-segment/acked", s.acked == t.acked)
			vfAssert(l+"/snd_buf-segment/fastack", s.fastack == t.fastack)
			vfAssert(l+"/snd_buf-segment/rto", s.rto == t.rto)
			vfAssert(l+"/snd_buf-segment/ts", t.ts == s.ts+live)
			vfAssert(l+"/snd_buf-segment/resendts", t.resendts == s.resendts+live)
			vfAssert(l+"/snd_buf-payload", vfAnd(s.frg == t.frg, vfBytesEq(s.data, t.data)))
		}
	}
	if a.rcv_queue.Len() == b.rcv_queue.Len() {
		for i := 0; i < a.rcv_queue.Len(); i++ {
			s, t := vfRingAt(a.rcv_queue, i), vfRingAt(b.rcv_queue, i)
			vfAssert(l+"/rcv_queue-segment", vfAnd(t.sn == s.sn+z.dr, vfAnd(s.frg == t.frg, vfBytesEq(s.data, t.data))))
		}
	}
	if a.rcv_buf.Len() == b.rcv_buf.Len() {
		for i := range a.rcv_buf.segments {
			s, t := &a.rcv_buf.segments[i], &b.rcv_buf.segments[i]
			vfAssert(l+"/rcv_buf-segment-same-heap-slot", vfAnd(t.sn == s.sn+z.dr, vfAnd(s.frg == t.frg, vfBytesEq(s.data, t.data))))
		}
	}
	if len(a.acklist) == len(b.acklist) {
		for i := range a.acklist {
			vfAssert(l+"/acklist", vfAnd(b.acklist[i].sn == a.acklist[i].sn+z.dr, b.acklist[i].ts == a.acklist[i].ts))
		}
	}
}

// vfEmittedRelated: the datagrams of the second run are those of the first, shifted.
func vfEmittedRelated(l string, e1, e2 []vfEmit, z vfShiftT) {
	vfAssert(l+"/same-number-of-datagrams", len(e1) == len(e2))
	if len(e1) != len(e2) {
		return
	}
	for i := range e1 {
		h1, ok1 := vfSpecDecode(e1[i].data)
		h2, ok2 := vfSpecDecode(e2[i].data)
		vfAssert(l+"/datagrams-well-formed", vfAnd(ok1, ok2))
		vfAssert(l+"/same-segments-per-datagram", len(h1) == len(h2))
		if len(h1) != len(h2) {
			continue
		}
		for j := range h1 {
			a, b := h1[j], h2[j]
			vfAssert(l+"/header-invariant-fields", vfAnd(vfAnd(a.conv == b.conv, a.cmd == b.cmd), vfAnd(vfAnd(a.frg == b.frg, a.wnd == b.wnd), a.ln == b.ln)))
			vfAssert(l+"/una-shifted", b.una == a.una+z.dr)
			switch a.cmd {
			case IKCP_CMD_PUSH:
				vfAssert(l+"/push-sn-ts-shifted", vfAnd(b.sn == a.sn+z.ds, b.ts == a.ts+z.dt))
				vfAssert(l+"/push-payload-equal", vfBytesEq(a.data, b.data))
			case IKCP_CMD_ACK:
				vfAssert(l+"/ack-sn-shifted-ts-echoed", vfAnd(b.sn == a.sn+z.dr, b.ts == a.ts))
			}
		}
	}
}

func vfC12Input(shapes []vfShape, cmds []uint8) { vfC12InputCfg(shapes, cmds, 1, []int{1400}) }

func vfC12InputCfg(shapes []vfShape, cmds []uint8, nc int, mtus []int) {
	k1, k2, em1, em2, z := vfPairOfStates(shapes, nc, mtus, 0)
	vfAssume(k1.probe == 0)
	var f vfDatagramFields
	f.conv = vfU32("dg_conv")
	f.cmd = cmds[vfPick("dg_cmd", 0, len(cmds)-1)]
	f.frg, f.wnd = vfU8("dg_frg"), vfU16("dg_wnd")
	f.ts, f.sn, f.una = vfU32("dg_ts"), vfU32("dg_sn"), vfU32("dg_una")
	f.ln = vfPick("dg_len", 0, 1)
	f.payload = vfBytes("dg_payload", f.ln)
	if vfTier() > 0 {
		f.trailingGarbage = vfPick("dg_trailing", 0, 1) * 5
	}
	if f.cmd == IKCP_CMD_ACK {
		// the fault model is loss/duplication/delay/reordering of genuine datagrams: an ACK never
		// names, or passes, a segment that was not transmitted yet (DESIGN.md C12)
		for i := 0; i < k1.snd_buf.Len(); i++ {
			s := vfRingAt(k1.snd_buf, i)
			vfAssume(vfImplies(s.xmit == 0, _itimediff(f.sn, s.sn) < 0))
		}
	}
	g := f
	switch f.cmd {
	case IKCP_CMD_PUSH:
		g.sn = f.sn + z.dr
	case IKCP_CMD_ACK:
		g.sn = f.sn + z.ds
		g.ts = f.ts + z.dt
	}
	g.una = f.una + z.ds
	now := vfU32("now")
	ptype := PacketType(vfPick("ptype", 0, 1))
	nd := vfTier() > 0 && vfPick("ackNoDelay", 0, 1) == 1
	vfReach("pre")
	vfSetClock(now)
	r1 := k1.Input(vfEncodeDatagram(f), ptype, nd)
	vfSetClock(now + z.dt)
	r2 := k2.Input(vfEncodeDatagram(g), ptype, nd)
	vfReach("post")
	vfAssert("c12/input/same-result", r1 == r2)
	vfRelated("c12/input", k1, k2, z)
	vfEmittedRelated("c12/input", *em1, *em2, z)
}

// receiver side: data and probes against held segments; sender side: acknowledgements and window
// updates against in-flight segments (quick: one shape each, thorough: the full product)
func vfH_C12_input_recv() {
	vfC12Input([]vfShape{{0, 0, 1, 1, 0}}, []uint8{IKCP_CMD_PUSH, IKCP_CMD_WASK})
}
func vfH_C12_input_send() {
	vfC12Input([]vfShape{{2, 0, 0, 0, 0}}, []uint8{IKCP_CMD_WINS})
}

// acknowledgements (exact ACK, fast-ack counting, RTT sample, cumulative una and the flush they
// trigger): the heaviest relational queries, one in-flight segment in the quick tier
func vfH_C12_input_ack() {
	// no two-segment variants here, in either tier: the relational queries of the full Input on
	// two in-flight segments time out in the solver (measured: 288 unknown of 24 304 queries, 19
	// min); two segments are covered by vfH_C12_ack_functions on the functions themselves
	vfC12NoVariants = true
	vfC12Input([]vfShape{{1, 0, 0, 0, 0}}, []uint8{IKCP_CMD_ACK})
}

// the acknowledgement functions themselves (exact ACK, fast-ack counting, cumulative una) on TWO
// in-flight segments, called directly: with a single segment the window tests in parse_ack /
// parse_fastack and the early loop exits are unobservable, and the full Input on two segments is
// too expensive for the quick tier (it runs in the thorough tier)
func vfH_C12_ack_functions() {
	k1, k2, _, _, z := vfPairOfStates([]vfShape{{2, 0, 0, 0, 0}}, 1, []int{1400}, 0)
	sn, ts, una := vfU32("a_sn"), vfU32("a_ts"), vfU32("a_una")
	fn := vfPick("fn", 0, 2)
	// fault model as above: nothing names or passes a segment that was not transmitted yet
	for i := 0; i < k1.snd_buf.Len(); i++ {
		s := vfRingAt(k1.snd_buf, i)
		if fn == 2 {
			vfAssume(vfImplies(s.xmit == 0, _itimediff(una, s.sn) <= 0))
		} else {
			vfAssume(vfImplies(s.xmit == 0, _itimediff(sn, s.sn) < 0))
		}
	}
	vfReach("pre")
	switch fn {
	case 0:
		k1.parse_ack(sn)
		k2.parse_ack(sn + z.ds)
	case 1:
		r1 := k1.parse_fastack(sn, ts)
		r2 := k2.parse_fastack(sn+z.ds, ts+z.dt)
		vfAssert("c12/ackfn/same-fast-ack-verdict", r1 == r2)
	default:
		c1 := k1.parse_una(una)
		c2 := k2.parse_una(una + z.ds)
		vfAssert("c12/ackfn/same-number-removed", c1 == c2)
		k1.shrink_buf()
		k2.shrink_buf()
	}
	vfReach("post")
	vfRelated("c12/ackfn", k1, k2, z)
}

// congestion control on: the window growth on a cumulative acknowledgement depends on "has
// snd_una advanced", a comparison of two sequence numbers
func vfH_C12_input_cc() {
	vfC12InputCfg([]vfShape{{1, 0, 0, 0, 0}}, []uint8{IKCP_CMD_WINS}, 0, []int{28})
}

// relational queries are several times more expensive than single-copy ones: small families (quick)
var vfShapesC12Flush = []vfShape{{1, 1, 0, 0, 1}, {0, 1, 0, 0, 2}}
var vfShapesC12Send = []vfShape{{1, 0, 0, 0, 0}, {2, 0, 0, 0, 0}}
var vfShapesC12Mixed = []vfShape{{0, 0, 1, 1, 0}, {0, 1, 2, 0, 0}, {1, 0, 0, 2, 0}}

func vfH_C12_flush() {
	k1, k2, em1, em2, z := vfPairOfStates(vfShapesC12Flush, 1, []int{1400}, vfSplitProbe)
	now := vfU32("now")
	ft := FlushType(vfPick("ft", 1, 2))
	vfReach("pre")
	vfSetClock(now)
	r1 := k1.flush(ft)
	vfSetClock(now + z.dt)
	r2 := k2.flush(ft)
	vfReach("post")
	vfAssert("c12/flush/same-interval", r1 == r2)
	vfRelated("c12/flush", k1, k2, z)
	vfEmittedRelated("c12/flush", *em1, *em2, z)
}

func vfH_C12_flush_cc() {
	k1, k2, em1, em2, z := vfPairOfStates(vfShapesC12Send, 0, []int{28}, 0)
	now := vfU32("now")
	vfReach("pre")
	vfSetClock(now)
	r1 := k1.flush(IKCP_FLUSH_FULL)
	vfSetClock(now + z.dt)
	r2 := k2.flush(IKCP_FLUSH_FULL)
	vfReach("post")
	vfAssert("c12/flushcc/same-interval", r1 == r2)
	vfRelated("c12/flushcc", k1, k2, z)
	vfEmittedRelated("c12/flushcc", *em1, *em2, z)
}

func vfH_C12_update_check() {
	k1, k2, em1, em2, z := vfPairOfStates(vfShapesC12Send, 1, []int{1400}, vfSplitUpdated)
	now := vfU32("now")
	vfReach("pre")
	vfSetClock(now)
	c1 := k1.Check()
	vfSetClock(now + z.dt)
	c2 := k2.Check()
	vfAssert("c12/check/wake-up-time-shifted", c2 == c1+z.dt)
	vfSetClock(now)
	k1.Update()
	vfSetClock(now + z.dt)
	k2.Update()
	vfReach("post")
	vfRelated("c12/update", k1, k2, z)
	vfEmittedRelated("c12/update", *em1, *em2, z)
}

func vfH_C12_recv_send() {
	k1, k2, _, _, z := vfPairOfStates(vfShapesC12Mixed, 1, []int{1400}, 0)
	vfReach("pre")
	b1, b2 := make([]byte, 8), make([]byte, 8)
	n1, n2 := k1.Recv(b1), k2.Recv(b2)
	vfAssert("c12/recv/same-result", vfAnd(n1 == n2, vfBytesEq(b1, b2)))
	w := vfBytes("w", vfPick("wlen", 0, 3))
	vfAssert("c12/send/same-result", k1.Send(w) == k2.Send(w))
	vfReach("post")
	vfRelated("c12/recvsend", k1, k2, z)
}
