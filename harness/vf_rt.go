package kcp

// Harness runtime. Under the symbolic executor (gse) every function whose
// name starts with "vf" and that is listed in gse's intrinsic table is
// intercepted and its body here is never interpreted. Compiled natively (the
// replay test), the bodies below read the solver's model from a JSON file so
// that the identical harness source re-runs the counterexample against the
// real build.

import (
	"encoding/json"
	"fmt"
	"os"
	"sync"
	"time"
)

// vfModelMu: library goroutines left over from an earlier replay in the same test process
// (a post-processing goroutine of a session nobody closed) may still call fillRand/currentMs
// while the next model is being loaded; the model map is therefore swapped under a lock.
var vfModelMu sync.RWMutex

type vfModelFile struct {
	Harness string              `json:"harness"`
	Label   string              `json:"label"`
	Kind    string              `json:"kind"`
	Vars    map[string]uint64   `json:"vars"`
	Arrays  map[string][]uint64 `json:"arrays"`
	Tier    int                 `json:"tier"`
}

var (
	vfModel       vfModelFile
	vfFailures    []string
	vfAssumeFails []string
	vfReached     []string
	vfClockBase   uint32
	vfClockReads  int
	vfClockSlk    uint32
	vfNative      = true
	vfTierLevel   int
	vfClockIsSet  bool
	vfObserved    map[string]uint64
	vfRandCalls   int
)

func vfLoadModel(path string) error {
	b, err := os.ReadFile(path)
	if err != nil {
		return err
	}
	var m vfModelFile
	if err := json.Unmarshal(b, &m); err != nil {
		return err
	}
	vfModelMu.Lock()
	vfModel = m
	vfModelMu.Unlock()
	vfTierLevel = vfModel.Tier
	vfFailures, vfAssumeFails, vfReached = nil, nil, nil
	vfClockBase, vfClockReads, vfClockSlk, vfClockIsSet = 0, 0, 0, false
	vfObserved = map[string]uint64{}
	vfRandCalls = 0
	return nil
}

func vfVal(name string) uint64 {
	vfModelMu.RLock()
	defer vfModelMu.RUnlock()
	return vfModel.Vars[name]
}

func vfU8(name string) uint8   { return uint8(vfVal(name)) }
func vfU16(name string) uint16 { return uint16(vfVal(name)) }
func vfU32(name string) uint32 { return uint32(vfVal(name)) }
func vfU64(name string) uint64 { return vfVal(name) }
func vfInt(name string) int    { return int(vfVal(name)) }
func vfBool(name string) bool  { return uint8(vfVal(name)) != 0 }

// vfIntRange: arbitrary value in [lo, hi] (stays symbolic under gse).
func vfIntRange(name string, lo, hi int) int {
	v := int(vfVal(name))
	if v < lo || v > hi {
		vfAssumeFails = append(vfAssumeFails, fmt.Sprintf("range %s=%d not in [%d,%d]", name, v, lo, hi))
	}
	return v
}

// vfPick: like vfIntRange but gse forks on every value, so the result is concrete.
func vfPick(name string, lo, hi int) int { return vfIntRange(name, lo, hi) }

// vfConcrete: gse forks on every feasible value of v.
func vfConcrete(v int) int { return v }

func vfBytes(name string, n int) []byte {
	vfModelMu.RLock()
	a := vfModel.Arrays[name]
	vfModelMu.RUnlock()
	b := make([]byte, n)
	for i := range b {
		if i < len(a) {
			b[i] = byte(a[i])
		}
	}
	return b
}

// vfBytesSym: a slice of symbolic length n (<= max) over a max-byte array.
func vfBytesSym(name string, n int, max int) []byte {
	if n < 0 || n > max {
		vfAssumeFails = append(vfAssumeFails, fmt.Sprintf("vfBytesSym %s n=%d max=%d", name, n, max))
		n = 0
	}
	return vfBytes(name, max)[:n]
}

func vfAssume(c bool) {
	if !c {
		vfAssumeFails = append(vfAssumeFails, "assumption false under the model")
		panic(vfAssumeAbort{})
	}
}

type vfAssumeAbort struct{}
type vfStopAbort struct{}

func vfAssert(label string, c bool) {
	if !c {
		vfFailures = append(vfFailures, label)
	}
}

// vfLemma: an assertion about internal representation (lemma level, see DESIGN.md §2.6).
func vfLemma(label string, c bool) {
	if !c {
		vfFailures = append(vfFailures, label)
	}
}

func vfReach(label string) { vfReached = append(vfReached, label) }
func vfStop()              { panic(vfStopAbort{}) }

func vfName(prefix string, i int) string { return fmt.Sprintf("%s%d", prefix, i) }

func vfSetClock(ms uint32)  { vfClockBase = ms; vfClockReads = 0; vfClockIsSet = true }
func vfClockSlack(d uint32) { vfClockSlk = d }

// vfNativeClock is what currentMs() returns in the native replay build (kcp.go is
// overlaid with a copy whose currentMs calls this).
func vfNativeClock() uint32 {
	vfClockReads++
	if !vfClockIsSet {
		vfClockBase = uint32(vfVal("clock0"))
		vfClockIsSet = true
	}
	if vfClockSlk == 0 {
		return vfClockBase
	}
	return vfClockBase + uint32(vfVal(fmt.Sprintf("clkd%d", vfClockReads)))
}

func vfPanicsOff() {}

// vfStepBudget raises gse's per-path instruction budget (long concrete loops); no-op natively.
func vfStepBudget(n int) {}

// vfObserve records a value; gse evaluates the same term under the model and the
// check compares the two (translator validation).
func vfObserve(label string, v int) {
	if _, dup := vfObserved[label]; !dup {
		vfObserved[label] = uint64(v)
	}
}

// vfRandReader feeds fillRand with the model's bytes (rand#<call>_<index>).
type vfRandReader struct{}

func (vfRandReader) Read(p []byte) (int, error) {
	vfModelMu.RLock()
	defer vfModelMu.RUnlock()
	vfRandCalls++
	for i := range p {
		if v, ok := vfModel.Vars[fmt.Sprintf("rand#%d_%d", vfRandCalls, i)]; ok {
			p[i] = byte(v)
		} else {
			// unconstrained by the model: any value will do; make calls differ
			p[i] = byte(vfRandCalls*37 + i*11 + 1)
		}
	}
	return len(p), nil
}

// vfRecentMilli: the time of the encoder's previous packet. gse: arbitrary; native: taken
// from the model relative to the real clock, so that "continuous or not" replays faithfully.
func vfRecentMilli(name string) int64 {
	gap := int64(vfVal("unixms1")) - int64(vfVal(name))
	if gap < 0 {
		gap = 0 // the model put the previous packet "after" this one: continuous either way
	}
	if gap > 1000 {
		gap = 1000
	}
	return time.Now().UnixMilli() - gap
}

// vfBeforeEncode: called before every fecEncoder.encode in harnesses. Native: sleeps when the
// model says this packet follows its predecessor by at least the encoder's latency bound.
func vfBeforeEncode() {
	vfUnixCalls++
	if vfUnixCalls > 1 {
		a := vfVal(fmt.Sprintf("unixms%d", vfUnixCalls-1))
		b := vfVal(fmt.Sprintf("unixms%d", vfUnixCalls))
		if b-a >= maxFECEncodeLatency {
			time.Sleep((maxFECEncodeLatency + 50) * time.Millisecond)
		}
	}
}

var vfUnixCalls int

func vfNativeSetup() {
	vfUnixCalls = 0
	vfC12NoVariants = false // harness-set package flags start fresh for every replay, as under gse
	DefaultSnmp.Reset() // the counters are process-wide; under gse every path starts from fresh globals
	SetEntropy(vfRandReader{})
}

func vfTier() int { return vfTierLevel }

func vfJournalStop()            {}
func vfPoolLive() int           { return 0 }
func vfPoolGets() int           { return 0 }
func vfCounter(name string) int { return 0 }

// Pure combinators: under gse they build one term instead of forking like && and || do.
func vfAnd(a, b bool) bool     { return a && b }
func vfOr(a, b bool) bool      { return a || b }
func vfImplies(a, b bool) bool { return !a || b }
func vfIte(c, a, b bool) bool {
	if c {
		return a
	}
	return b
}
func vfIteInt(c bool, a, b int) int {
	if c {
		return a
	}
	return b
}
func vfIteU32(c bool, a, b uint32) uint32 {
	if c {
		return a
	}
	return b
}
func vfIteU8(c bool, a, b uint8) uint8 {
	if c {
		return a
	}
	return b
}

func vfShow(label string, v uint32) {}

// ---- goroutine mode (gse: cooperative scheduler with virtual time; native: real goroutines) ----

func vfGoroutineMode(preemptions int, asyncTimers bool) {}

// vfQuiesce: gse runs every other goroutine until all are blocked, letting virtual time advance
// by at most maxAdvanceNs; natively real time passes.
func vfQuiesce(maxAdvanceNs int) {
	time.Sleep(time.Duration(maxAdvanceNs) + 60*time.Millisecond)
}
func vfNowNs() int64             { return time.Now().UnixNano() }
func vfLiveGoroutines() int      { return 0 }
func vfBlockedAt(sub string) int { return 0 }
func vfPendingTimers() int       { return 0 }

// vfIteLifting: gse normaliser option (lift if-then-else through sums); used by the relational harnesses.
func vfIteLifting(on bool) {}

// vfGhost wraps a condition over executor-only (ghost) state: identity under gse, true natively.
func vfGhost(c bool) bool { return true }
