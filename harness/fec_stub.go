package kcp

// Abstract Reed-Solomon codec used under gse in place of klauspost/reedsolomon
// (gse redirects reedsolomon.New to vfNewRS). It implements the documented
// contract of Encode / ReconstructData — argument checks, which shards are
// treated as missing, how missing data shards are sized — and delegates the
// GF(2^8) arithmetic to ghost state: parity bytes are uninterpreted functions
// of the data column, and reconstruction returns the original data iff every
// shard presented equals the encoder's shard in the same slot (MDS property).
// The native replay uses the real codec.

import (
	"errors"

	"github.com/klauspost/reedsolomon"
)

var (
	vfErrTooFewShards = errors.New("too few shards given")
	vfErrShardSize    = errors.New("shard sizes do not match")
	vfErrShardNoData  = errors.New("no shard data")
)

type vfRS struct {
	reedsolomon.Encoder // unimplemented methods panic (nil embedded interface)
	d, p                int
}

func vfNewRS(d, p int) reedsolomon.Encoder { return &vfRS{d: d, p: p} }

// native bodies of the ghost intrinsics (never used natively: the real codec is)
func vfRSEncodeGhost(d, p int, shards [][]byte) {}
func vfRSReconstructGhost(d, p int, shards [][]byte, n int, present [][]byte) bool {
	return false
}

func vfShardSize(shards [][]byte) int {
	for _, s := range shards {
		if len(s) != 0 {
			return len(s)
		}
	}
	return 0
}

func (r *vfRS) Encode(shards [][]byte) error {
	if len(shards) != r.d+r.p {
		return vfErrTooFewShards
	}
	n := vfShardSize(shards)
	if n == 0 {
		return vfErrShardNoData
	}
	for _, s := range shards {
		if len(s) != n {
			return vfErrShardSize
		}
	}
	vfRSEncodeGhost(r.d, r.p, shards)
	return nil
}

func (r *vfRS) ReconstructData(shards [][]byte) error {
	if len(shards) != r.d+r.p {
		return vfErrTooFewShards
	}
	n := vfShardSize(shards)
	if n == 0 {
		return vfErrShardNoData
	}
	present := make([][]byte, len(shards))
	np, ndata := 0, 0
	for i, s := range shards {
		if len(s) == 0 {
			continue
		}
		if len(s) != n {
			return vfErrShardSize
		}
		present[i] = []byte{1}
		np++
		if i < r.d {
			ndata++
		}
	}
	if ndata == r.d {
		return nil
	}
	if np < r.d {
		return vfErrTooFewShards
	}
	for i := 0; i < r.d; i++ {
		if len(shards[i]) == 0 {
			if cap(shards[i]) >= n {
				shards[i] = shards[i][:n]
			} else {
				shards[i] = make([]byte, n)
			}
		}
	}
	vfRSReconstructGhost(r.d, r.p, shards, n, present)
	return nil
}
