package kcp

// Step lemmas (S1) for C01 (content), C02 (nothing can get stuck) and C03 (zero-window
// probing), each from an arbitrary INV_KCP state. Their composition into the whole-history
// statements is the written argument of DESIGN.md §4; the bounded two-endpoint scenarios
// (scenario.go) cross-check it end to end.

func vfQueueBytes(r *RingBuffer[segment]) (out []byte) {
	for i := 0; i < r.Len(); i++ {
		out = append(out, vfRingAt(r, i).data...)
	}
	return
}

// ---------------- C01 ----------------

// L1: Send appends exactly the written bytes to the send queue, cut into segments of at most
// MSS bytes with the right fragment numbering, and touches nothing else.
func vfH_C01_send() {
	k := vfNewKCP("", vfCfg{mtus: []int{25, 26, 27}, nc: 1}, nil)
	sh := []vfShape{{0, 0, 0, 0, 0}, {1, 1, 0, 0, 0}, {0, 2, 1, 0, 0}}[vfPick("shape", 0, 2)]
	vfArbitraryKCP("", k, sh)
	mss := int(k.mss)
	n := []int{0, 1, 2, 3, 5, 7}[vfPick("wlen", 0, 5)]
	w := vfBytes("w", n)
	pre := vfCopy(vfQueueBytes(k.snd_queue))
	q0 := k.snd_queue.Len()
	var lastLen0 int
	if q0 > 0 {
		lastLen0 = len(vfRingAt(k.snd_queue, q0-1).data)
	}
	vfReach("pre")
	vfJournalStart(k)
	ret := k.Send(w)
	vfReach("post")
	post := vfQueueBytes(k.snd_queue)
	if n == 0 {
		vfAssert("send/empty-write-refused", ret == -1)
		vfAssert("send/refusal-no-effect", !vfWritten(k))
		return
	}
	vfAssert("send/accepted", ret == 0)
	vfAssert("send/queue-is-old-bytes-then-written-bytes", vfBytesEq(post, append(pre, w...)))
	stream := vfConcreteBool(k.stream != 0)
	added := k.snd_queue.Len() - q0
	for i := 0; i < k.snd_queue.Len(); i++ {
		s := vfRingAt(k.snd_queue, i)
		vfAssert("send/segment-size-1..mss", vfAnd(len(s.data) >= 1, len(s.data) <= mss))
		if i >= q0 {
			if stream {
				vfAssert("send/stream-frg-0", s.frg == 0)
			} else {
				vfAssert("send/message-frg-counts-down", int(s.frg) == k.snd_queue.Len()-1-i)
			}
		}
	}
	if stream && q0 > 0 {
		fill := mss - lastLen0
		if fill > n {
			fill = n
		}
		vfAssert("send/stream-fills-last-segment-first", len(vfRingAt(k.snd_queue, q0-1).data) == lastLen0+fill)
		vfAssert("send/stream-segment-count", added == (n-fill+mss-1)/mss)
	} else {
		vfAssert("send/segment-count", added == (n+mss-1)/mss)
	}
	vfAssert("send/in-flight-untouched", k.snd_buf.Len() == sh.sndBuf)
}

// L1 boundary: the fragment field is one byte; a message needing more than 255 fragments is
// refused without effect, one needing exactly 255 is accepted.
func vfH_C01_send_fragment_limit() {
	k := NewKCP(vfU32("conv"), func([]byte, int) {})
	vfAssume(k.SetMtu(IKCP_OVERHEAD+1) == 0) // MSS 1
	n := []int{254, 255, 256, 257, 300}[vfPick("wlen", 0, 4)]
	w := vfBytes("w", n)
	vfReach("pre")
	ret := k.Send(w)
	vfReach("post")
	if n > 255 {
		vfAssert("send/too-many-fragments-refused", ret == -2)
		vfAssert("send/refusal-queues-nothing", k.snd_queue.Len() == 0)
	} else {
		vfAssert("send/accepted", ret == 0)
		vfAssert("send/first-fragment-number", int(vfRingAt(k.snd_queue, 0).frg) == n-1)
	}
}

// L2: flush moves a prefix of the queue into flight in order, numbering from snd_nxt, without
// changing fragment numbers or bytes; every PUSH on the wire carries exactly the bytes and frg
// of the in-flight segment with that number.
func vfH_C01_flush_content() {
	var em []vfEmit
	k := vfNewKCP("", vfCfg{mtus: []int{60, 1400}, nc: 1}, &em)
	sh := []vfShape{{1, 2, 0, 0, 0}, {2, 1, 0, 0, 1}, {0, 2, 0, 0, 0}}[vfPick("shape", 0, 2)]
	vfArbitraryKCP("", k, sh)
	vfAssume(k.probe == 0)
	type snap struct {
		frg  uint8
		data []byte
	}
	var before []snap
	for i := 0; i < k.snd_buf.Len(); i++ {
		s := vfRingAt(k.snd_buf, i)
		before = append(before, snap{s.frg, vfCopy(s.data)})
	}
	for i := 0; i < k.snd_queue.Len(); i++ {
		s := vfRingAt(k.snd_queue, i)
		before = append(before, snap{s.frg, vfCopy(s.data)})
	}
	una0, nxt0 := k.snd_una, k.snd_nxt
	vfReach("pre")
	vfSetClock(vfU32("now"))
	k.flush(IKCP_FLUSH_FULL)
	vfReach("post")
	vfAssert("flush/una-unchanged", k.snd_una == una0)
	moved := int(k.snd_nxt - nxt0)
	vfAssert("flush/conserves-segments", k.snd_buf.Len()+k.snd_queue.Len() == len(before))
	for i := 0; i < k.snd_buf.Len() && i < len(before); i++ {
		s := vfRingAt(k.snd_buf, i)
		vfAssert("flush/in-flight-numbered-consecutively", s.sn == una0+uint32(i))
		if s.acked == 0 {
			vfAssert("flush/in-flight-content-unchanged", vfAnd(s.frg == before[i].frg, vfBytesEq(s.data, before[i].data)))
		}
	}
	for i := 0; i < k.snd_queue.Len(); i++ {
		s := vfRingAt(k.snd_queue, i)
		b := before[sh.sndBuf+moved+i]
		vfAssert("flush/queued-content-unchanged", vfAnd(s.frg == b.frg, vfBytesEq(s.data, b.data)))
	}
	for _, e := range em {
		hs, ok := vfSpecDecode(e.data)
		vfAssert("flush/wire-well-formed", ok)
		for _, h := range hs {
			if h.cmd != IKCP_CMD_PUSH {
				continue
			}
			idx := vfConcrete(int(h.sn - una0))
			vfAssert("flush/push-names-an-in-flight-segment", vfAnd(idx >= 0, idx < k.snd_buf.Len()))
			if idx >= 0 && idx < len(before) {
				vfAssert("flush/push-carries-that-segment", vfAnd(h.frg == before[idx].frg, vfBytesEq(h.data, before[idx].data)))
			}
		}
	}
}

// L4: Recv returns an error without effect, or exactly the first complete message (message
// mode) / segment, bytes in order, and removes exactly those segments.
func vfH_C01_recv_content() {
	k := vfNewKCP("", vfCfg{mtus: []int{1400}, nc: 1}, nil)
	sh := []vfShape{{0, 0, 1, 0, 0}, {0, 0, 2, 1, 0}, {0, 0, 3, 0, 0}, {0, 0, 0, 1, 0}}[vfPick("shape", 0, 3)]
	vfArbitraryKCP("", k, sh)
	// the first message: segments up to the first frg == 0
	var msg []byte
	msgSegs := 0
	complete := false
	for i := 0; i < k.rcv_queue.Len(); i++ {
		s := vfRingAt(k.rcv_queue, i)
		msg = append(msg, s.data...)
		msgSegs++
		if vfConcreteBool(s.frg == 0) {
			complete = true
			break
		}
	}
	first := uint8(0)
	if sh.rcvQ > 0 {
		first = vfRingAt(k.rcv_queue, 0).frg
	}
	// KCP decides completeness from the first fragment number alone
	enough := sh.rcvQ > 0 && (vfConcreteBool(first == 0) || vfConcreteBool(sh.rcvQ >= int(first)+1))
	bl := []int{0, 1, 2, 8}[vfPick("buflen", 0, 3)]
	buf := make([]byte, bl)
	q0, nxt0 := k.rcv_queue.Len(), k.rcv_nxt
	vfReach("pre")
	n := k.Recv(buf)
	vfReach("post")
	// a message with fragment number 255 cannot come from Send (limit 255 fragments): excluded
	vfAssume(first != 255)
	if !enough {
		vfAssert("recv/nothing-readable", n == -1)
		vfAssert("recv/error-no-effect", vfAnd(k.rcv_queue.Len() == q0, k.rcv_nxt == nxt0))
		return
	}
	if complete && len(msg) <= bl {
		vfAssert("recv/returns-message-length", n == len(msg))
		if n == len(msg) {
			vfAssert("recv/bytes-in-order", vfBytesEq(buf[:n], msg))
		}
		vfAssert("recv/removes-exactly-the-message", k.rcv_queue.Len() >= q0-msgSegs)
	} else if complete {
		vfAssert("recv/short-buffer-refused", n == -2)
		vfAssert("recv/error-no-effect", vfAnd(k.rcv_queue.Len() == q0, k.rcv_nxt == nxt0))
	}
}

// ---------------- C02 ----------------

// W1/W4: after a full flush every unacknowledged segment has been transmitted and has a timer
// that lies strictly ahead, at most its rto; an expired timer always causes a retransmission
// (whatever fastack or the dead-link state are); the interval returned never oversleeps a timer.
func vfH_C02_flush_timers() {
	k := vfNewKCP("", vfCfg{mtus: []int{60, 1400}, nc: -1}, nil)
	sh := []vfShape{{1, 0, 0, 0, 0}, {2, 0, 0, 0, 0}, {2, 1, 0, 0, 0}}[vfPick("shape", 0, 2)]
	vfArbitraryKCP("", k, sh)
	vfAssume(k.probe == 0)
	now := vfU32("now")
	type pre struct {
		xmit, resendts uint32
		acked          uint32
	}
	var before []pre
	for i := 0; i < k.snd_buf.Len(); i++ {
		s := vfRingAt(k.snd_buf, i)
		// retransmission back-off keeps a segment's rto far below 2^31
		vfAssume(s.rto <= IKCP_RTO_MAX*64)
		// a transmitted segment was stamped from this clock, not long ago
		age := _itimediff(now, s.ts)
		vfAssume(vfImplies(s.xmit > 0, vfAnd(age >= 0, age < 1<<30)))
		before = append(before, pre{s.xmit, s.resendts, s.acked})
	}
	vfReach("pre")
	vfSetClock(now)
	next := k.flush(IKCP_FLUSH_FULL)
	vfReach("post")
	vfAssert("timers/interval<=configured", next <= k.interval)
	for i := 0; i < k.snd_buf.Len(); i++ {
		s := vfRingAt(k.snd_buf, i)
		if s.acked == 1 {
			continue
		}
		ahead := _itimediff(s.resendts, now)
		vfAssert("timers/every-unacked-segment-was-transmitted", s.xmit >= 1)
		vfAssert("timers/timer-strictly-ahead", ahead > 0)
		vfAssert("timers/timer-within-rto", uint32(ahead) <= s.rto)
		vfAssert("timers/interval-does-not-oversleep", next <= uint32(ahead))
		if i < len(before) {
			expired := vfAnd(before[i].xmit > 0, _itimediff(now, before[i].resendts) >= 0)
			vfAssert("timers/expired-timer-retransmits", vfImplies(expired, s.xmit == before[i].xmit+1))
		}
	}
}

// W2: a PUSH below the window edge — new or duplicate — is always acknowledged: after Input the
// ack is queued or already on the wire; and a flush sends every owed acknowledgement (or a
// cumulative una that covers it).
func vfH_C02_push_always_acked() {
	var em []vfEmit
	k := vfNewKCP("", vfCfg{mtus: []int{60, 1400}, nc: 1}, &em)
	vfArbitraryKCP("", k, vfPickShapeRecvSide())
	vfAssume(k.probe == 0)
	var f vfDatagramFields
	f.conv, f.cmd = k.conv, IKCP_CMD_PUSH
	f.frg, f.wnd, f.ts, f.sn, f.una = vfU8("dg_frg"), vfU16("dg_wnd"), vfU32("dg_ts"), vfU32("dg_sn"), vfU32("dg_una")
	f.ln = vfPick("dg_len", 0, 2)
	f.payload = vfBytes("dg_payload", f.ln)
	below := _itimediff(f.sn, k.rcv_nxt+k.rcv_wnd) < 0
	acks0 := len(k.acklist)
	preOwed := false // an acknowledgement of the same number was already owed before this datagram
	for i := 0; i < acks0; i++ {
		preOwed = vfOr(preOwed, k.acklist[i].sn == f.sn) // one term, no fork
	}
	vfReach("pre")
	vfSetClock(vfU32("now"))
	k.Input(vfEncodeDatagram(f), IKCP_PACKET_REGULAR, vfBool("ackNoDelay"))
	vfReach("post")
	onWire := false
	for _, e := range em {
		hs, _ := vfSpecDecode(e.data)
		for _, h := range hs {
			if h.cmd == IKCP_CMD_ACK && vfConcreteBool(h.sn == f.sn) {
				onWire = true
			}
		}
	}
	queued := false
	for i := acks0; i < len(k.acklist); i++ {
		if vfConcreteBool(k.acklist[i].sn == f.sn) {
			queued = true
		}
	}
	if len(em) == 0 {
		vfAssert("acks/push-below-window-edge-is-acknowledged", vfImplies(below, queued))
	} else {
		// a flush happened inside Input: the ack went out, or the cumulative una covers it
		covered := _itimediff(f.sn, k.rcv_nxt) < 0
		vfAssert("acks/push-below-window-edge-is-acknowledged", vfImplies(below, vfOr(onWire, covered)))
	}
	if queued {
		vfAssert("acks/echo-timestamp", k.acklist[len(k.acklist)-1].ts == f.ts)
	}
	// the converse, without which the sender forgets data the receiver never had: a sequence
	// number is acknowledged only if the receiver holds it or has already delivered it
	if queued || onWire {
		vfAssert("acks/acknowledged-only-if-held-or-delivered", vfOr(preOwed, vfOr(_itimediff(f.sn, k.rcv_nxt) < 0, k.rcv_buf.Has(f.sn))))
	}
}

func vfH_C02_flush_sends_owed_acks() {
	var em []vfEmit
	k := vfNewKCP("", vfCfg{mtus: []int{60, 1400}, nc: 1}, &em)
	sh := []vfShape{{0, 0, 0, 0, 1}, {0, 0, 1, 0, 2}, {0, 0, 0, 1, 3}}[vfPick("shape", 0, 2)]
	vfArbitraryKCP("", k, sh)
	owed := make([]ackItem, len(k.acklist))
	copy(owed, k.acklist)
	vfReach("pre")
	vfSetClock(vfU32("now"))
	k.flush(FlushType(vfPick("ft", 1, 2)))
	vfReach("post")
	vfAssert("acks/list-emptied", len(k.acklist) == 0)
	var acks []vfHdr
	any := false
	for _, e := range em {
		hs, _ := vfSpecDecode(e.data)
		for _, h := range hs {
			any = true
			vfAssert("acks/una-is-rcv_nxt", h.una == k.rcv_nxt)
			if h.cmd == IKCP_CMD_ACK {
				acks = append(acks, h)
			}
		}
	}
	vfAssert("acks/something-sent", any)
	for _, o := range owed {
		sent := false
		for _, h := range acks {
			if vfConcreteBool(vfAnd(h.sn == o.sn, h.ts == o.ts)) {
				sent = true
			}
		}
		vfAssert("acks/owed-ack-sent-or-covered-by-una", vfOr(sent, _itimediff(o.sn, k.rcv_nxt) < 0))
	}
}

// W5: Check never names a time later than the next flush tick, than an armed retransmission
// timer, or than one interval ahead; Update at or after the tick flushes and re-arms the tick
// within one interval.
func vfH_C02_update_check() {
	var em []vfEmit
	k := vfNewKCP("", vfCfg{mtus: []int{1400}, nc: 1}, &em)
	sh := []vfShape{{0, 0, 0, 0, 1}, {1, 0, 0, 0, 0}, {2, 1, 0, 0, 0}}[vfPick("shape", 0, 2)]
	vfArbitraryKCP("", k, sh)
	vfAssume(k.probe == 0)
	now := vfU32("now")
	vfReach("pre")
	vfSetClock(now)
	t := k.Check()
	wait := _itimediff(t, now)
	vfAssert("check/not-in-the-past", wait >= 0)
	vfAssert("check/at-most-one-interval", uint32(wait) <= k.interval)
	if vfConcreteBool(k.updated != 0) {
		tick := _itimediff(k.ts_flush, now)
		vfAssert("check/not-later-than-the-flush-tick", vfImplies(vfAnd(tick >= 0, tick < 10000), wait <= tick))
		for i := 0; i < k.snd_buf.Len(); i++ {
			s := vfRingAt(k.snd_buf, i)
			d := _itimediff(s.resendts, now)
			// a segment that was never transmitted has no timer yet (it goes out with the next tick)
			vfAssert("check/not-later-than-a-retransmission-timer", vfImplies(vfAnd(s.xmit > 0, d >= 0), wait <= d))
		}
	}
	tick0, upd0 := k.ts_flush, k.updated
	due := vfOr(upd0 == 0, vfOr(_itimediff(now, tick0) >= 0, _itimediff(now, tick0) < -10000))
	k.Update()
	vfReach("post")
	ahead := _itimediff(k.ts_flush, now)
	vfAssert("update/first-call-initialises", k.updated == 1)
	if vfConcreteBool(due) {
		vfAssert("update/flushes-when-due", vfAnd(len(k.acklist) == 0, k.probe == 0))
		vfAssert("update/tick-re-armed-within-one-interval", vfAnd(ahead > 0, uint32(ahead) <= k.interval))
	} else {
		vfAssert("update/not-due-does-nothing", vfAnd(k.ts_flush == tick0, len(em) == 0))
	}
}

// ---------------- C03 ----------------

// P1: with the peer's window closed nothing new is admitted, nothing is dropped, the probe
// timer is armed (500 ms .. 120 s) and a WASK goes out whenever it has expired.
func vfH_C03_zero_window_probe() {
	var em []vfEmit
	k := vfNewKCP("", vfCfg{mtus: []int{60, 1400}, nc: -1}, &em)
	sh := []vfShape{{0, 1, 0, 0, 0}, {1, 2, 0, 0, 0}, {2, 1, 0, 0, 0}, {2, 0, 1, 0, 1}}[vfPick("shape", 0, 3)]
	vfArbitraryKCP("", k, sh)
	k.rmt_wnd = 0
	now := vfU32("now")
	pw0, tp0, probe0 := k.probe_wait, k.ts_probe, k.probe
	nxt0, q0 := k.snd_nxt, k.snd_queue.Len()
	vfReach("pre")
	vfSetClock(now)
	k.flush(IKCP_FLUSH_FULL)
	vfReach("post")
	vfAssert("probe/nothing-admitted-into-a-closed-window", k.snd_nxt == nxt0)
	vfAssert("probe/nothing-dropped", vfAnd(k.snd_queue.Len() == q0, k.snd_buf.Len() == sh.sndBuf))
	vfAssert("probe/timer-armed", vfAnd(k.probe_wait >= IKCP_PROBE_INIT, k.probe_wait <= IKCP_PROBE_LIMIT))
	wask := false
	for _, e := range em {
		hs, _ := vfSpecDecode(e.data)
		for _, h := range hs {
			if h.cmd == IKCP_CMD_WASK {
				wask = true
			}
		}
	}
	expired := vfAnd(pw0 != 0, _itimediff(now, tp0) >= 0)
	vfAssert("probe/expired-timer-sends-wask", vfImplies(vfOr(expired, probe0&IKCP_ASK_SEND != 0), wask))
	vfAssert("probe/first-arming", vfImplies(pw0 == 0, vfAnd(k.probe_wait == IKCP_PROBE_INIT, k.ts_probe == now+IKCP_PROBE_INIT)))
	vfAssert("probe/re-armed-after-expiry", vfImplies(expired, vfAnd(k.ts_probe == now+k.probe_wait, k.probe_wait >= pw0)))
	vfAssert("probe/pending-timer-kept", vfImplies(vfAnd(pw0 != 0, _itimediff(now, tp0) < 0), vfAnd(k.probe_wait == pw0, k.ts_probe == tp0)))
}

// P2/P3: a window probe from the peer, or a pending tell flag, produces a WINS carrying the
// true free space at the next flush.
func vfH_C03_wask_answered() {
	var em []vfEmit
	k := vfNewKCP("", vfCfg{mtus: []int{60, 1400}, nc: 1}, &em)
	vfArbitraryKCP("", k, vfPickShapeFrom(vfShapesRecv))
	vfAssume(k.probe == 0)
	var f vfDatagramFields
	f.conv, f.cmd = k.conv, IKCP_CMD_WASK
	f.wnd, f.ts, f.sn, f.una = vfU16("dg_wnd"), vfU32("dg_ts"), vfU32("dg_sn"), vfU32("dg_una")
	vfReach("pre")
	vfSetClock(vfU32("now"))
	k.Input(vfEncodeDatagram(f), IKCP_PACKET_REGULAR, vfBool("ackNoDelay"))
	if len(em) == 0 {
		vfAssert("wask/tell-scheduled", k.probe&IKCP_ASK_TELL != 0)
		k.flush(IKCP_FLUSH_FULL)
	}
	vfReach("post")
	wins := false
	free := int(k.rcv_wnd) - k.rcv_queue.Len()
	if free < 0 {
		free = 0
	}
	for _, e := range em {
		hs, _ := vfSpecDecode(e.data)
		for _, h := range hs {
			if h.cmd == IKCP_CMD_WINS {
				wins = true
				vfAssert("wask/wins-carries-true-window", h.wnd == uint16(free))
			}
		}
	}
	vfAssert("wask/answered-with-wins", wins)
}

// P4: any regular segment advertising a non-zero window reopens the sender: the probe state is
// cleared at the next flush and queued data is admitted.
func vfH_C03_window_reopens() {
	k := vfNewKCP("", vfCfg{mtus: []int{1400}, nc: 1}, nil)
	sh := []vfShape{{0, 1, 0, 0, 0}, {1, 2, 0, 0, 0}}[vfPick("shape", 0, 1)]
	vfArbitraryKCP("", k, sh)
	k.rmt_wnd = 0
	var f vfDatagramFields
	f.conv = k.conv
	f.cmd = uint8(vfPick("dg_cmd", IKCP_CMD_PUSH, IKCP_CMD_WINS))
	f.wnd, f.ts, f.sn, f.una = vfU16("dg_wnd"), vfU32("dg_ts"), vfU32("dg_sn"), vfU32("dg_una")
	vfAssume(f.wnd > 0)
	vfReach("pre")
	vfSetClock(vfU32("now"))
	k.Input(vfEncodeDatagram(f), IKCP_PACKET_REGULAR, false)
	vfAssert("reopen/window-believed", k.rmt_wnd == uint32(f.wnd))
	inflight := k.snd_nxt - k.snd_una
	room := vfAnd(inflight < k.snd_wnd, inflight < k.rmt_wnd)
	nxt1, q1 := k.snd_nxt, k.snd_queue.Len()
	k.flush(IKCP_FLUSH_FULL)
	vfReach("post")
	vfAssert("reopen/probe-state-cleared", vfAnd(k.probe_wait == 0, k.ts_probe == 0))
	vfAssert("reopen/queued-data-admitted", vfImplies(vfAnd(room, q1 > 0), k.snd_nxt != nxt1))

}
