package kcp

// C08 — the hand-unrolled CFB code equals textbook full-block CFB and round-trips, for every
// length, with the block cipher as an uninterpreted function (so the result holds for every
// 8- and 16-byte block cipher at once); Salsa20 (keystream = uninterpreted function of the
// nonce and position), XOR and none round-trip in place and out of place.

import (
	"crypto/aes"
	"crypto/cipher"
	"crypto/des"
)

// vfBlock is a cipher.Block whose Encrypt is an uninterpreted function under gse and a real
// cipher (AES-128 / DES with a fixed key) in the native replay.
type vfBlock struct {
	bs   int
	real cipher.Block
}

func vfNewBlock(bs int) *vfBlock { return &vfBlock{bs: bs} }

func (b *vfBlock) BlockSize() int          { return b.bs }
func (b *vfBlock) Encrypt(dst, src []byte) { vfBlockEnc(dst, src, b.bs) }
func (b *vfBlock) Decrypt(dst, src []byte) { panic("block decryption is never used by CFB") }

var vfRealBlocks = map[int]cipher.Block{}

// vfBlockEnc: native body (gse intercepts it).
func vfBlockEnc(dst, src []byte, bs int) {
	blk := vfRealBlocks[bs]
	if blk == nil {
		if bs == 16 {
			blk, _ = aes.NewCipher([]byte("0123456789abcdef"))
		} else {
			blk, _ = des.NewCipher([]byte("01234567"))
		}
		vfRealBlocks[bs] = blk
	}
	blk.Encrypt(dst, src)
}

// textbook full-block CFB with the package IV: C_i = P_i xor E(C_{i-1}), C_0 = IV[:bs]
func vfSpecCFBEncrypt(b cipher.Block, dst, src []byte) {
	bs := b.BlockSize()
	prev := make([]byte, bs)
	copy(prev, initialVector[:bs])
	ks := make([]byte, bs)
	for off := 0; off < len(src); off += bs {
		b.Encrypt(ks, prev)
		n := len(src) - off
		if n > bs {
			n = bs
		}
		for i := 0; i < n; i++ {
			dst[off+i] = src[off+i] ^ ks[i]
		}
		if n == bs {
			copy(prev, dst[off:off+bs])
		}
	}
}

func vfCipherLen() int {
	if vfTier() > 0 {
		return vfPick("n", 0, 1500)
	}
	// quick: every length class boundary of both block sizes is inside 0..300; plus the MTU end
	i := vfPick("n", 0, 401)
	if i <= 300 {
		return i
	}
	return 1400 + (i - 301)
}

func vfCFBCase(bs int, inPlace bool) {
	n := vfCipherLen()
	blk := vfNewBlock(bs)
	bc := newBlockCrypt(blk).(*blockCrypt)
	vfAssert("constructor/scratch-sizes", vfAnd(len(bc.encbuf) >= bs, len(bc.decbuf) >= 2*bs))
	vfAssert("constructor/block-size", bc.blockSize == bs)
	plain := vfBytes("p", n)
	want := make([]byte, n)
	vfSpecCFBEncrypt(blk, want, plain)
	var ct []byte
	if inPlace {
		ct = make([]byte, n)
		copy(ct, plain)
		bc.Encrypt(ct, ct)
	} else {
		ct = vfBytes("dstgarbage", n)
		bc.Encrypt(ct, plain)
	}
	vfReach("encrypted")
	for i := 0; i < n; i++ {
		vfAssert("cfb/ciphertext-equals-textbook-cfb", ct[i] == want[i])
	}
	var back []byte
	if inPlace {
		back = ct
		bc.Decrypt(back, back)
	} else {
		back = vfBytes("dstgarbage2", n)
		bc.Decrypt(back, ct)
		for i := 0; i < n; i++ {
			vfAssert("cfb/decrypt-leaves-source-intact", ct[i] == want[i])
		}
	}
	vfReach("decrypted")
	for i := 0; i < n; i++ {
		vfAssert("cfb/round-trip", back[i] == plain[i])
	}
	if !inPlace {
		for i := 0; i < n; i++ {
			vfAssert("cfb/encrypt-leaves-source-intact", plain[i] == vfBytes("p", n)[i])
		}
	}
}

func vfH_C08_cfb8_inplace()   { vfCFBCase(8, true) }
func vfH_C08_cfb8_separate()  { vfCFBCase(8, false) }
func vfH_C08_cfb16_inplace()  { vfCFBCase(16, true) }
func vfH_C08_cfb16_separate() { vfCFBCase(16, false) }

func vfRoundTrip(l string, c BlockCrypt, inPlace bool) {
	n := vfCipherLen()
	plain := vfBytes("p", n)
	var ct, back []byte
	if inPlace {
		ct = make([]byte, n)
		copy(ct, plain)
		c.Encrypt(ct, ct)
		back = ct
		vfReach("encrypted")
		c.Decrypt(back, back)
	} else {
		ct = vfBytes("dstgarbage", n)
		c.Encrypt(ct, plain)
		vfReach("encrypted")
		back = vfBytes("dstgarbage2", n)
		c.Decrypt(back, ct)
	}
	vfReach("decrypted")
	for i := 0; i < n; i++ {
		vfAssert(l+"/round-trip", back[i] == plain[i])
	}
}

func vfH_C08_salsa20_inplace() {
	c := new(salsa20BlockCrypt)
	copy(c.key[:], vfBytes("key", 32))
	vfRoundTrip("salsa20", c, true)
}
func vfH_C08_salsa20_separate() {
	c := new(salsa20BlockCrypt)
	copy(c.key[:], vfBytes("key", 32))
	vfRoundTrip("salsa20", c, false)
}
func vfH_C08_xor_inplace() {
	vfRoundTrip("xor", &simpleXORBlockCrypt{xortbl: vfBytes("tbl", mtuLimit)}, true)
}
func vfH_C08_xor_separate() {
	vfRoundTrip("xor", &simpleXORBlockCrypt{xortbl: vfBytes("tbl", mtuLimit)}, false)
}
func vfH_C08_none_inplace()  { vfRoundTrip("none", new(noneBlockCrypt), true) }
func vfH_C08_none_separate() { vfRoundTrip("none", new(noneBlockCrypt), false) }

// Concurrent callers: Encrypt and Decrypt of one blockCrypt hold different mutexes, so a
// session's postProcess goroutine encrypts while its read loop decrypts. That is only sound
// if the two directions share no mutable state. Decided by havoc: the other direction's working
// buffer holds arbitrary bytes (whatever a concurrent call is in the middle of writing there);
// the operation must still produce textbook CFB / the round trip (it read nothing from there)
// and must leave those bytes as they were (it wrote nothing there).
func vfCFBDirections(bs int) {
	n := vfCipherLen()
	blk := vfNewBlock(bs)
	bc := newBlockCrypt(blk).(*blockCrypt)
	plain := vfBytes("p", n)
	want := make([]byte, n)
	vfSpecCFBEncrypt(blk, want, plain)
	// a concurrent Decrypt is anywhere in its work: its scratch is arbitrary
	hd := vfBytes("havoc_dec", len(bc.decbuf))
	copy(bc.decbuf, hd)
	ct := make([]byte, n)
	copy(ct, plain)
	bc.Encrypt(ct, ct)
	vfReach("encrypted")
	for i := 0; i < n; i++ {
		vfAssert("cfb/concurrent/encrypt-independent-of-the-decrypt-side", ct[i] == want[i])
	}
	vfAssert("cfb/concurrent/encrypt-leaves-the-decrypt-side-alone", vfBytesEq(bc.decbuf, hd))
	// and the other way round
	he := vfBytes("havoc_enc", len(bc.encbuf))
	copy(bc.encbuf, he)
	bc.Decrypt(ct, ct)
	vfReach("decrypted")
	for i := 0; i < n; i++ {
		vfAssert("cfb/concurrent/decrypt-independent-of-the-encrypt-side", ct[i] == plain[i])
	}
	vfAssert("cfb/concurrent/decrypt-leaves-the-encrypt-side-alone", vfBytesEq(bc.encbuf, he))
}

func vfH_C08_cfb8_directions()  { vfCFBDirections(8) }
func vfH_C08_cfb16_directions() { vfCFBDirections(16) }
