package kcp

// S3 at session level: a real dialled UDPSession and a real Listener/accepted session joined by
// stub sockets whose datagrams get symbolic fates. Everything between Write and Read is the
// library's own code: WriteBuffers -> KCP -> output callback -> postProcess (FEC encode, nonce,
// CRC/AEAD) -> "wire" -> Listener.packetInput (decrypt, verify, demultiplex) -> kcpInput (FEC
// decode, recovered packets re-entering KCP.Input) -> Read. Retransmission is driven by the real
// update() at a harness-controlled clock.

import "encoding/binary"

type vfLink struct {
	pr               *vfPair
	clock            uint32
	faultsC, faultsS int // datagrams (client->server, server->client) that still get a symbolic fate
	nfate            int
	seenC, seenS     int
	delayedToSrv     [][]byte
	delayedToCli     [][]byte
	written          []byte
	received         []byte
	rlen             int
}

func (lk *vfLink) fate(budget *int) int {
	if *budget <= 0 {
		return 1
	}
	*budget--
	f := vfPick(vfName("fate", lk.nfate), 0, 3)
	lk.nfate++
	return f
}

func vfSessReadable(s *UDPSession) bool { return len(s.bufptr) > 0 || s.kcp.PeekSize() > 0 }

func (lk *vfLink) adopt() {
	pr := lk.pr
	if pr.srv == nil && len(pr.l.chAccepts) > 0 {
		pr.srv = <-pr.l.chAccepts
	}
}

// toServer: everything the client's postProcess has put on its socket since last time travels.
func (lk *vfLink) toServer() {
	pr := lk.pr
	vfDrainTx(pr.client)
	batch := lk.delayedToSrv
	lk.delayedToSrv = nil
	for ; lk.seenC < len(pr.cconn.writes); lk.seenC++ {
		batch = append(batch, pr.cconn.writes[lk.seenC].data)
	}
	for _, d := range batch {
		switch lk.fate(&lk.faultsC) {
		case 0:
		case 1:
			pr.l.packetInput(vfCopy(d), vfClientAddr)
		case 2:
			pr.l.packetInput(vfCopy(d), vfClientAddr)
			pr.l.packetInput(vfCopy(d), vfClientAddr)
		default:
			lk.delayedToSrv = append(lk.delayedToSrv, d)
		}
	}
	lk.adopt()
}

func (lk *vfLink) toClient() {
	pr := lk.pr
	if pr.srv == nil {
		return
	}
	vfDrainTx(pr.srv)
	batch := lk.delayedToCli
	lk.delayedToCli = nil
	for ; lk.seenS < len(pr.lconn.writes); lk.seenS++ {
		batch = append(batch, pr.lconn.writes[lk.seenS].data)
	}
	for _, d := range batch {
		switch lk.fate(&lk.faultsS) {
		case 0:
		case 1:
			pr.client.packetInput(vfCopy(d))
		case 2:
			pr.client.packetInput(vfCopy(d))
			pr.client.packetInput(vfCopy(d))
		default:
			lk.delayedToCli = append(lk.delayedToCli, d)
		}
	}
}

// read: the server application reads whatever is readable, rlen bytes at a time.
func (lk *vfLink) read() {
	s := lk.pr.srv
	if s == nil {
		return
	}
	for i := 0; i < 64 && vfSessReadable(s); i++ {
		b := make([]byte, lk.rlen)
		n, err := s.Read(b)
		vfAssert("link/read-succeeds-while-readable", err == nil && n >= 1 && n <= len(b))
		if n < 0 || n > len(b) {
			return
		}
		lk.received = append(lk.received, b[:n]...)
		vfAssert("c01/link/reader-sees-a-prefix-of-what-was-written", len(lk.received) <= len(lk.written) && vfConcreteBool(vfBytesEq(lk.received, lk.written[:len(lk.received)])))
	}
}

func (lk *vfLink) write(name string, n int) {
	w := vfBytes(name, n)
	m, err := lk.pr.client.Write(w)
	vfAssert("link/write-accepted", vfAnd(m == n, err == nil))
	lk.written = append(lk.written, w...)
}

func (lk *vfLink) round(step uint32) {
	pr := lk.pr
	vfSetClock(lk.clock)
	pr.client.update()
	lk.toServer()
	lk.read()
	if pr.srv != nil {
		pr.srv.update()
	}
	lk.toClient()
	if pr.srv != nil {
		vfCheckWindows("link/srv", pr.srv.kcp)
	}
	vfCheckWindows("link/client", pr.client.kcp)
	lk.clock += step
}

func vfNewLink(ck, d, p int, stream bool) *vfLink {
	pr := &vfPair{ck: ck, d: d, p: p}
	pr.cconn, pr.lconn = vfNewConn(), vfNewConn()
	pr.client = vfNewSession(vfU32("conv"), d, p, nil, pr.cconn, vfServerAddr, vfMakeCipher(ck))
	pr.l, _ = serveConn(vfMakeCipher(ck), d, p, pr.lconn, false)
	pr.client.SetNoDelay(1, 10, 2, 1)
	if stream {
		pr.client.SetStreamMode(true)
	}
	lk := &vfLink{pr: pr, rlen: 16}
	lk.clock = vfU32("t0")
	vfSetClock(lk.clock)
	return lk
}

// every datagram on either socket stays within the session MTU and never is empty
func (lk *vfLink) checkWire() {
	for _, w := range lk.pr.cconn.writes {
		vfAssert("c10/link/datagram-within-mtu", len(w.data) > 0 && len(w.data) <= IKCP_MTU_DEF)
	}
	for _, w := range lk.pr.lconn.writes {
		vfAssert("c10/link/datagram-within-mtu", len(w.data) > 0 && len(w.data) <= IKCP_MTU_DEF)
	}
}

// C01/C02 end to end: cipher x FEC x stream/message mode x read-buffer size, the first K (quick 2,
// thorough 3) client->server datagrams and the first 1 (2) server->client datagrams get every fate; afterwards
// the network is fair. The reader sees a prefix at every step, everything arrives intact, the
// sender's backlog drains.
func vfH_C01_session_link() {
	ck := []int{vfCipherNil, vfCipherNone, vfCipherAEAD}[vfPick("cipher", 0, 2)]
	d, p := vfPickFEC()
	stream := vfPick("stream", 0, 1) == 1
	lk := vfNewLink(ck, d, p, stream)
	lk.rlen = []int{1, 16}[vfPick("rlen", 0, 1)]
	K, Ks := 2, 1
	if vfTier() > 0 {
		K, Ks = 3, 2
	}
	lk.faultsC, lk.faultsS = K, Ks
	lk.write("w0", 2)
	lk.write("w1", 1)
	lk.write("w2", 2)
	vfReach("written")
	done := false
	for r := 0; r < 24 && !done; r++ {
		lk.round(100)
		done = lk.pr.client.kcp.WaitSnd() == 0 && len(lk.received) == len(lk.written)
	}
	vfReach("post")
	lk.checkWire()
	vfAssert("c02/link/backlog-drains-after-the-network-heals", done)
	vfAssert("c01/link/everything-delivered-intact", len(lk.received) == len(lk.written) && vfConcreteBool(vfBytesEq(lk.received, lk.written)))
	vfAssert("c11/link/one-session-for-the-peer", len(lk.pr.l.sessions) == 1 && len(lk.pr.l.chAccepts) == 0)
}

// vfWireKind classifies a datagram of the client by its FEC type after removing the cipher layer.
func vfWireKind(ck int, dg []byte) (typ uint16, seq uint32) {
	body := dg
	switch ck {
	case vfCipherNone:
		body = body[cryptHeaderSize:]
	case vfCipherAEAD:
		pt, _ := vfAEADOpen(nil, body[:12], body[12:])
		body = pt
	}
	return binary.LittleEndian.Uint16(body[4:]), binary.LittleEndian.Uint32(body)
}

// C07 end to end (+C19 interleaving): an established FEC(2,1) session writes two messages that
// form one FEC group. An arbitrary subset of the group's three datagrams arrives, in an arbitrary
// order, possibly with an out-of-band message sent between the two writes. With NO
// retransmission (no update is run): any two of the three datagrams make both messages readable
// at once, byte for byte; fewer deliver exactly the in-order prefix that arrived.
func vfH_C07_session_recovery() {
	ck := []int{vfCipherNil, vfCipherNone, vfCipherAEAD}[vfPick("cipher", 0, 2)]
	withOOB := vfPick("oob", 0, 1) == 1
	lk := vfNewLink(ck, 2, 1, false)
	pr := lk.pr
	// group 0: establishes the session; everything arrives
	lk.write("c0", 1)
	lk.write("c1", 1)
	lk.toServer()
	vfAssert("rec/connected", pr.srv != nil)
	if pr.srv == nil {
		vfStop()
	}
	oobCalls := 0
	var oobGot []byte
	pr.srv.SetOOBHandler(func(b []byte) { oobGot = vfCopy(b); oobCalls++ })
	lk.read()
	base := len(pr.cconn.writes)
	if base != 3 {
		// the encoder judged group 0 non-continuous and sent no parity; ids stay aligned
		vfAssert("rec/group0-datagrams", base == 2)
	}
	vfReach("established")
	// the group under test
	lk.write("m0", 2)
	var oob []byte
	if withOOB {
		oob = vfBytes("oob", 3)
		vfAssert("rec/oob-accepted", pr.client.SendOOB(oob) == nil)
	}
	lk.write("m1", 3)
	vfDrainTx(pr.client)
	grp := pr.cconn.writes[base:]
	var data [][]byte
	var parity, oobDg []byte
	other := 0
	for _, w := range grp {
		typ, _ := vfWireKind(ck, w.data)
		switch typ {
		case typeData:
			data = append(data, w.data)
		case typeParity:
			parity = w.data
		case typeOOB:
			oobDg = w.data
		default:
			other++
		}
	}
	vfAssert("rec/every-datagram-is-data-parity-or-oob", other == 0)
	vfAssert("rec/two-data-datagrams", len(data) == 2)
	if len(data) != 2 {
		vfStop()
	}
	if withOOB {
		vfAssert("rec/oob-datagram-emitted", oobDg != nil)
	}
	if parity == nil {
		// non-continuous group (the two writes were more than the encoder's latency bound apart)
		vfReach("no-parity")
		vfStop()
	}
	vfReach("group-on-the-wire")
	items := [][]byte{data[0], data[1], parity}
	if oobDg != nil {
		items = append(items, oobDg)
	}
	// arrival sequence: 3 arrivals, each any of the datagrams (duplicates allowed) or nothing
	got := make([]bool, 3)
	for a := 0; a < 3; a++ {
		c := vfPick(vfName("arrival", a), 0, len(items))
		if c == len(items) {
			continue
		}
		pr.l.packetInput(vfCopy(items[c]), vfClientAddr)
		if c < 3 {
			got[c] = true
		} else {
			vfAssert("c19/rec/oob-delivered-intact", oobCalls >= 1 && len(oobGot) == 3 && vfConcreteBool(vfBytesEq(oobGot, oob)))
		}
	}
	ngot := 0
	for _, g := range got {
		if g {
			ngot++
		}
	}
	lk.received, lk.written = nil, lk.written[2:]
	// message mode: one Read returns one message
	var msgs [][]byte
	for i := 0; i < 4 && vfSessReadable(pr.srv); i++ {
		b := make([]byte, 16)
		n, err := pr.srv.Read(b)
		vfAssert("rec/read-ok", err == nil)
		msgs = append(msgs, b[:n])
	}
	vfReach("read")
	m0, m1 := lk.written[:2], lk.written[2:]
	want := 0
	switch {
	case ngot >= 2:
		want = 2
	case got[0]:
		want = 1
	}
	vfAssert("c07/rec/any-two-of-three-deliver-both-messages-without-retransmission", len(msgs) == want)
	if len(msgs) >= 1 {
		vfAssert("c07/rec/first-message-intact", len(msgs[0]) == 2 && vfConcreteBool(vfBytesEq(msgs[0], m0)))
	}
	if len(msgs) >= 2 {
		vfAssert("c07/rec/second-message-intact", len(msgs[1]) == 3 && vfConcreteBool(vfBytesEq(msgs[1], m1)))
	}
	vfAssert("c07/rec/decoder-not-suspended", !pr.srv.fecDecoder.shouldTune)
	vfAssert("c19/rec/stream-never-reaches-the-oob-handler", oobCalls <= 3 && (withOOB || oobCalls == 0))
}

// C10 "whenever in the connection's life it is set": an MTU shrink that SetMtu accepts while the
// FEC encoder is in the middle of a group (one data packet of the old size collected, nothing
// queued or in flight any more). Every datagram handed to the socket after SetMtu returned must
// respect the new MTU — the group's parity included.
func vfH_C10_session_setmtu_fec() {
	ck := []int{vfCipherNil, vfCipherNone, vfCipherAEAD}[vfPick("cipher", 0, 2)]
	lk := vfNewLink(ck, 2, 1, false)
	pr := lk.pr
	big, small := 150, 100
	vfAssert("mtufec/initial-mtu-accepted", pr.client.SetMtu(big))
	lk.write("w0", int(pr.client.kcp.mss)) // a full-size segment: the datagram is exactly `big` bytes
	for r := 0; r < 4 && pr.client.kcp.WaitSnd() > 0; r++ {
		lk.round(100)
	}
	vfAssert("mtufec/first-write-acknowledged", pr.client.kcp.WaitSnd() == 0)
	vfReach("quiet")
	n0 := len(pr.cconn.writes)
	ok := pr.client.SetMtu(small)
	if !ok {
		// refusing is always allowed by the property
		vfStop()
	}
	vfReach("accepted")
	lk.write("w1", 2)
	vfDrainTx(pr.client)
	vfAssert("mtufec/second-write-on-the-wire", len(pr.cconn.writes) > n0)
	for _, w := range pr.cconn.writes[n0:] {
		vfAssert("c10/mtufec/datagram-after-accepted-shrink-within-new-mtu", len(w.data) <= small)
	}
}
