package kcp

// C20 — RingBuffer[uint32] is a FIFO for every layout and every operation.
//
// Shape S1 (inductive step): the pre-state is an arbitrary ring that satisfies
// the representation invariant — capacity C, *symbolic* head and tail, symbolic
// live elements, zero elsewhere — so a single path covers every layout
// (wrapped, unwrapped, empty, full). One real operation with symbolic
// arguments is run and its result, the abstraction α (the elements from head
// to tail) and the invariant are compared with the queue model.
// Every such (head, tail) is reachable by real Push/Pop calls (rotate head
// times, push len elements), so a failing pre-state is a real history.

func vfRingCaps() []int {
	if vfTier() > 0 {
		return []int{8, 9, 10, 11, 12, 13, 14, 15, 16, 17, 32, 64}
	}
	return []int{8, 9, 16}
}

// the iterator harnesses fork once per visited element and their queries are the heaviest of
// this property (nested if-then-else over every slot): quick keeps them to capacity 8
func vfRingCapsIter() []int {
	if vfTier() > 0 {
		return vfRingCaps()
	}
	return []int{8}
}

// vfRingLenSpec: specification of the length, written independently of Len().
func vfRingLenSpec(head, tail, c int) int {
	return vfIteInt(head <= tail, tail-head, c-head+tail)
}

// vfRingInside: slot i holds a live element.
func vfRingInside(head, tail, i int) bool {
	return vfIte(head <= tail, vfAnd(head <= i, i < tail), vfOr(i >= head, i < tail))
}

// vfArbitraryRing builds an arbitrary valid RingBuffer[uint32] of capacity c.
func vfArbitraryRing(c int) *RingBuffer[uint32] {
	r := &RingBuffer[uint32]{elements: make([]uint32, c)}
	r.head = vfIntRange("head", 0, c-1)
	r.tail = vfIntRange("tail", 0, c-1)
	for i := 0; i < c; i++ {
		e := vfU32(vfName("e", i))
		r.elements[i] = vfIteU32(vfRingInside(r.head, r.tail, i), e, 0)
	}
	return r
}

// vfRingAbs: j-th element of the abstraction (valid for j < len).
func vfRingAbs(r *RingBuffer[uint32], j int) uint32 {
	return r.elements[(r.head+j)%len(r.elements)]
}

func vfRingInv(label string, r *RingBuffer[uint32]) {
	c := len(r.elements)
	vfAssert(label+"/inv-head", vfAnd(r.head >= 0, r.head < c))
	vfAssert(label+"/inv-tail", vfAnd(r.tail >= 0, r.tail < c))
	for i := 0; i < c; i++ {
		vfAssert(label+"/inv-dead-slots-zero", vfImplies(!vfRingInside(r.head, r.tail, i), r.elements[i] == 0))
	}
}

func vfRingSnapshot(r *RingBuffer[uint32]) (n int, pre []uint32) {
	c := len(r.elements)
	n = vfRingLenSpec(r.head, r.tail, c)
	pre = make([]uint32, c)
	for j := 0; j < c; j++ {
		pre[j] = vfRingAbs(r, j)
	}
	return
}

func vfH_C20_push() {
	c := vfRingCaps()[vfPick("capidx", 0, len(vfRingCaps())-1)]
	r := vfArbitraryRing(c)
	n, pre := vfRingSnapshot(r)
	vfAssume(n < c-1) // not full: the growth step is vfH_C20_grow
	vfReach("pre")
	v := vfU32("v")
	vfAssert("len-matches-spec", r.Len() == n)
	vfAssert("isfull-spec", !r.IsFull())
	vfAssert("isempty-spec", r.IsEmpty() == (n == 0))
	vfAssert("maxlen-spec", r.MaxLen() == c-1)
	r.Push(v)
	vfReach("post")
	vfAssert("push/cap-unchanged", len(r.elements) == c)
	vfAssert("push/len", r.Len() == n+1)
	for j := 0; j < c-1; j++ {
		vfAssert("push/prefix-kept", vfImplies(j < n, vfRingAbs(r, j) == pre[j]))
		vfAssert("push/last-is-v", vfImplies(j == n, vfRingAbs(r, j) == v))
	}
	vfRingInv("push", r)
}

func vfH_C20_grow() {
	var c int
	if vfTier() > 0 {
		c = []int{8, 9, 16, 32}[vfPick("capidx", 0, 3)]
	} else {
		c = []int{8, 16}[vfPick("capidx", 0, 1)]
	}
	r := vfArbitraryRing(c)
	n, pre := vfRingSnapshot(r)
	vfAssume(n == c-1) // full
	vfReach("pre")
	vfAssert("isfull-spec", r.IsFull())
	v := vfU32("v")
	r.Push(v)
	vfReach("post")
	nc := len(r.elements)
	vfAssert("grow/cap-doubles", nc == 2*c)
	vfAssert("grow/len", r.Len() == n+1)
	vfAssert("grow/head-tail", vfAnd(r.head == 0, r.tail == n+1))
	for j := 0; j < c-1; j++ {
		vfAssert("grow/prefix-kept", r.elements[j] == pre[j])
	}
	vfAssert("grow/last-is-v", r.elements[n] == v)
	for j := c; j < nc; j++ {
		vfAssert("grow/rest-zero", r.elements[j] == 0)
	}
}

func vfH_C20_pop_peek() {
	c := vfRingCaps()[vfPick("capidx", 0, len(vfRingCaps())-1)]
	r := vfArbitraryRing(c)
	n, pre := vfRingSnapshot(r)
	vfReach("pre")
	p, okp := r.Peek()
	vfAssert("peek/ok", okp == (n > 0))
	if okp {
		vfAssert("peek/value", *p == pre[0])
		vfAssert("peek/len-unchanged", r.Len() == n)
	}
	v, ok := r.Pop()
	vfReach("post")
	vfAssert("pop/ok", ok == (n > 0))
	if ok {
		vfAssert("pop/value", v == pre[0])
		vfAssert("pop/len", r.Len() == n-1)
		for j := 0; j < c-1; j++ {
			vfAssert("pop/rest-shifted", vfImplies(j < n-1, vfRingAbs(r, j) == pre[j+1]))
		}
	} else {
		vfAssert("pop/zero-value", v == 0)
		vfAssert("pop/len0", r.Len() == 0)
	}
	vfRingInv("pop", r)
}

func vfH_C20_discard() {
	c := vfRingCaps()[vfPick("capidx", 0, len(vfRingCaps())-1)]
	r := vfArbitraryRing(c)
	n, pre := vfRingSnapshot(r)
	// any non-negative count, far beyond the length too (negative counts are outside
	// the documented domain, see DESIGN.md C20)
	k := vfIntRange("k", 0, 1<<62)
	vfReach("pre")
	got := r.Discard(k)
	vfReach("post")
	want := vfIteInt(k < n, k, n)
	vfAssert("discard/count", got == want)
	vfAssert("discard/len", r.Len() == n-want)
	for j := 0; j < c-1; j++ {
		// survivor j is old element want+j
		old := pre[(want+j)%c]
		vfAssert("discard/order", vfImplies(j < n-want, vfRingAbs(r, j) == old))
	}
	vfRingInv("discard", r)
}

func vfH_C20_clear() {
	c := vfRingCaps()[vfPick("capidx", 0, len(vfRingCaps())-1)]
	r := vfArbitraryRing(c)
	vfReach("pre")
	r.Clear()
	vfReach("post")
	vfAssert("clear/len", r.Len() == 0)
	vfAssert("clear/empty", r.IsEmpty())
	for i := 0; i < c; i++ {
		vfAssert("clear/all-zero", r.elements[i] == 0)
	}
	vfRingInv("clear", r)
}

func vfH_C20_foreach() {
	c := vfRingCapsIter()[vfPick("capidx", 0, len(vfRingCapsIter())-1)]
	r := vfArbitraryRing(c)
	n, pre := vfRingSnapshot(r)
	stop := vfIntRange("stop", 1, c+1) // callback returns false at its stop-th call
	vfReach("pre")
	calls := 0
	r.ForEach(func(p *uint32) bool {
		vfAssert("foreach/order", *p == pre[calls])
		*p = *p ^ 0x5a5a5a5a // in-place mutation through the iterator
		calls++
		return calls != stop
	})
	vfReach("post")
	want := vfIteInt(stop < n, stop, n)
	vfAssert("foreach/calls", calls == want)
	vfAssert("foreach/len-unchanged", r.Len() == n)
	for j := 0; j < c-1; j++ {
		vfAssert("foreach/mutated-visited", vfImplies(j < want, vfRingAbs(r, j) == pre[j]^0x5a5a5a5a))
		vfAssert("foreach/untouched-rest", vfImplies(vfAnd(j >= want, j < n), vfRingAbs(r, j) == pre[j]))
	}
}

func vfH_C20_foreach_reverse() {
	c := vfRingCapsIter()[vfPick("capidx", 0, len(vfRingCapsIter())-1)]
	r := vfArbitraryRing(c)
	n, pre := vfRingSnapshot(r)
	stop := vfIntRange("stop", 1, c+1)
	vfReach("pre")
	calls := 0
	r.ForEachReverse(func(p *uint32) bool {
		vfAssert("foreachrev/order", *p == pre[n-1-calls])
		*p = *p ^ 0x5a5a5a5a
		calls++
		return calls != stop
	})
	vfReach("post")
	want := vfIteInt(stop < n, stop, n)
	vfAssert("foreachrev/calls", calls == want)
	vfAssert("foreachrev/len-unchanged", r.Len() == n)
	for j := 0; j < c-1; j++ {
		vfAssert("foreachrev/mutated-visited", vfImplies(vfAnd(j >= n-want, j < n), vfRingAbs(r, j) == pre[j]^0x5a5a5a5a))
		vfAssert("foreachrev/untouched-rest", vfImplies(j < n-want, vfRingAbs(r, j) == pre[j]))
	}
}

// NewRingBuffer establishes the invariant for every requested size.
func vfH_C20_new() {
	n := vfIntRange("n", -1<<40, 64)
	r := NewRingBuffer[uint32](n)
	vfReach("post")
	want := vfIteInt(n <= 8, 8, n)
	vfAssert("new/cap", len(r.elements) == want)
	vfAssert("new/empty", vfAnd(r.Len() == 0, r.IsEmpty()))
	vfAssert("new/head-tail", vfAnd(r.head == 0, r.tail == 0))
}

// Growth at the large sizes, including the +10% regime (1024 -> 1127 -> 1240):
// full rings only, so one layout per head position, head picked concretely.
func vfH_C20_grow_big() {
	var c int
	if vfTier() > 0 {
		c = []int{64, 512, 1024, 1127}[vfPick("capidx", 0, 3)]
	} else {
		c = []int{64, 1024}[vfPick("capidx", 0, 1)]
	}
	var head int
	if vfTier() > 0 {
		head = vfPick("head", 0, c-1)
	} else {
		// quick: the boundary heads and one symbolic-choice interior head
		head = []int{0, 1, c / 2, c - 2, c - 1}[vfPick("headidx", 0, 4)]
	}
	r := &RingBuffer[uint32]{elements: make([]uint32, c), head: head, tail: (head + c - 1) % c}
	pre := make([]uint32, c-1)
	for j := 0; j < c-1; j++ {
		pre[j] = vfU32(vfName("e", j))
		r.elements[(head+j)%c] = pre[j]
	}
	vfReach("pre")
	vfAssert("isfull-spec", r.IsFull())
	v := vfU32("v")
	r.Push(v)
	vfReach("post")
	nc := len(r.elements)
	want := 2 * c
	if c >= 1024 {
		want = c + (c+9)/10
	}
	vfAssert("growbig/cap", nc == want)
	vfAssert("growbig/larger", nc > c)
	vfAssert("growbig/len", r.Len() == c)
	vfAssert("growbig/head-tail", vfAnd(r.head == 0, r.tail == c))
	for j := 0; j < c-1; j++ {
		vfAssert("growbig/prefix-kept", r.elements[j] == pre[j])
	}
	vfAssert("growbig/last-is-v", r.elements[c-1] == v)
	for j := c; j < nc; j++ {
		vfAssert("growbig/rest-zero", r.elements[j] == 0)
	}
}
