package kcp

// Session-level environment for the sequential harnesses: a scripted
// net.PacketConn, concrete addresses, an AEAD with the documented contract, an
// inert timed scheduler (the harness drives update/flush itself) and the
// native twin of the write-set journal (a reflect-based deep snapshot).

import (
	"crypto/aes"
	"crypto/cipher"
	"errors"
	"fmt"
	"hash/fnv"
	"net"
	"reflect"
	"sort"
	"time"
	"unsafe"
)

type vfAddr string

func (a vfAddr) Network() string { return "vf" }
func (a vfAddr) String() string  { return string(a) }

type vfWrite struct {
	data []byte
	to   net.Addr
}

type vfConn struct {
	writes []vfWrite
	closed bool
	block  chan struct{} // native: ReadFrom parks here so that the library's read loop is inert
	failTx bool
	local  vfAddr
}

func vfNewConn() *vfConn { return &vfConn{block: make(chan struct{}), local: "local:1"} }

func (c *vfConn) ReadFrom(p []byte) (int, net.Addr, error) {
	<-c.block
	return 0, nil, errors.New("vfConn closed")
}
func (c *vfConn) WriteTo(p []byte, addr net.Addr) (int, error) {
	if c.failTx {
		return 0, errors.New("vfConn write error")
	}
	d := make([]byte, len(p))
	copy(d, p)
	c.writes = append(c.writes, vfWrite{d, addr})
	return len(p), nil
}
func (c *vfConn) Close() error                       { c.closed = true; return nil }
func (c *vfConn) LocalAddr() net.Addr                { return c.local }
func (c *vfConn) SetDeadline(t time.Time) error      { return nil }
func (c *vfConn) SetReadDeadline(t time.Time) error  { return nil }
func (c *vfConn) SetWriteDeadline(t time.Time) error { return nil }

// ---- AEAD with the documented cipher.AEAD contract (gse intercepts vfAEADSeal/Open) ----

type vfAEAD struct{ real cipher.AEAD }

func vfNewAEAD() *vfAEAD {
	blk, _ := aes.NewCipher([]byte("0123456789abcdef"))
	g, _ := cipher.NewGCM(blk)
	return &vfAEAD{g}
}
func (a *vfAEAD) NonceSize() int { return 12 }
func (a *vfAEAD) Overhead() int  { return 16 }
func (a *vfAEAD) Seal(dst, nonce, plaintext, ad []byte) []byte {
	return vfAEADSeal(dst, nonce, plaintext)
}
func (a *vfAEAD) Open(dst, nonce, ciphertext, ad []byte) ([]byte, error) {
	out, ok := vfAEADOpen(dst, nonce, ciphertext)
	if !ok {
		return nil, errors.New("cipher: message authentication failed")
	}
	return out, nil
}

var vfRealGCM cipher.AEAD

func vfGCM() cipher.AEAD {
	if vfRealGCM == nil {
		vfRealGCM = vfNewAEAD().real
	}
	return vfRealGCM
}
func vfAEADSeal(dst, nonce, plaintext []byte) []byte { return vfGCM().Seal(dst, nonce, plaintext, nil) }
func vfAEADOpen(dst, nonce, ciphertext []byte) ([]byte, bool) {
	out, err := vfGCM().Open(dst, nonce, ciphertext, nil)
	return out, err == nil
}

// ---- cipher configurations ----

const (
	vfCipherNil   = iota
	vfCipherNone  // noneBlockCrypt: the CFB-class path (nonce + CRC32) without cipher cost
	vfCipherBlock // real blockCrypt over the uninterpreted 16-byte block function
	vfCipherAEAD
)

func vfMakeCipher(kind int) BlockCrypt {
	switch kind {
	case vfCipherNone:
		return new(noneBlockCrypt)
	case vfCipherBlock:
		return newBlockCrypt(vfNewBlock(16))
	case vfCipherAEAD:
		return &aeadCrypt{vfNewAEAD()}
	}
	return nil
}

// vfInertSched: a TimedSched whose goroutines were never started; Put only queues.
func vfInertSched() *TimedSched {
	ts := new(TimedSched)
	ts.chTask = make(chan timedFunc)
	ts.die = make(chan struct{})
	ts.chPrependNotify = make(chan struct{}, 1)
	return ts
}

// vfNewSession: a real session through the real constructor over the stub socket.
func vfNewSession(conv uint32, d, p int, l *Listener, conn *vfConn, remote net.Addr, block BlockCrypt) *UDPSession {
	SystemTimedSched = vfInertSched()
	return newUDPSession(conv, d, p, l, conn, false, remote, block)
}

// vfRunUntilBlocked: gse runs f until it blocks; natively the library goroutine is real, so
// the harness just waits for the post-processing queue to drain.
func vfRunUntilBlocked(f func()) bool { return true }

// vfDrainTx pushes everything queued for post-processing through the real postProcess.
func vfDrainTx(s *UDPSession) {
	if vfIsGSE() {
		vfRunUntilBlocked(s.postProcess)
		return
	}
	for i := 0; i < 2000 && len(s.chPostProcessing) > 0; i++ {
		time.Sleep(time.Millisecond)
	}
	time.Sleep(20 * time.Millisecond)
}

func vfIsGSE() bool { return false }

// vfCallMayBlock runs an API call that may block and reports whether it did. gse: the call is
// executed until it blocks on a select with nothing ready. Native: the call runs in its own
// goroutine and counts as blocked if it has not returned after a grace period.
func vfCallMayBlock(f func()) bool {
	done := make(chan struct{})
	go func() { defer close(done); f() }()
	select {
	case <-done:
		return false
	case <-time.After(150 * time.Millisecond):
		return true
	}
}

// ---- native twin of the write-set journal ----

type vfSnap map[unsafe.Pointer]uint64

var vfSnapshot vfSnap

func vfShallow(v reflect.Value, h *uint64) {
	mix := func(x uint64) { *h = (*h ^ x) * 1099511628211 }
	switch v.Kind() {
	case reflect.Bool:
		if v.Bool() {
			mix(1)
		} else {
			mix(0)
		}
	case reflect.Int, reflect.Int8, reflect.Int16, reflect.Int32, reflect.Int64:
		mix(uint64(v.Int()))
	case reflect.Uint, reflect.Uint8, reflect.Uint16, reflect.Uint32, reflect.Uint64, reflect.Uintptr:
		mix(v.Uint())
	case reflect.String:
		f := fnv.New64a()
		f.Write([]byte(v.String()))
		mix(f.Sum64())
	case reflect.Ptr, reflect.UnsafePointer, reflect.Func:
		mix(uint64(v.Pointer()))
	case reflect.Chan:
		mix(uint64(v.Pointer()))
		mix(uint64(v.Len()))
	case reflect.Map:
		mix(uint64(v.Pointer()))
		mix(uint64(v.Len()))
	case reflect.Slice:
		mix(uint64(v.Pointer()))
		mix(uint64(v.Len()))
	case reflect.Interface:
		if v.IsNil() {
			mix(0)
		} else {
			vfShallow(v.Elem(), h)
		}
	case reflect.Struct:
		t := v.Type()
		if t.PkgPath() == "sync" || t.PkgPath() == "sync/atomic" || t.PkgPath() == "time" {
			return // lock words, atomics and timestamps are not protocol state
		}
		for i := 0; i < v.NumField(); i++ {
			vfShallow(v.Field(i), h)
		}
	case reflect.Array:
		for i := 0; i < v.Len(); i++ {
			vfShallow(v.Index(i), h)
		}
	}
}

// vfWalk visits every object reachable from v and records/compares its shallow hash.
func vfWalk(v reflect.Value, seen map[unsafe.Pointer]bool, skip map[unsafe.Pointer]bool, visit func(p unsafe.Pointer, h uint64)) {
	switch v.Kind() {
	case reflect.Ptr:
		if v.IsNil() {
			return
		}
		p := unsafe.Pointer(v.Pointer())
		if seen[p] || skip[p] {
			return
		}
		seen[p] = true
		if pp := v.Type().Elem().PkgPath(); pp == "net" || pp == "os" || pp == "time" || pp == "sync" {
			return
		}
		var h uint64 = 14695981039346656037
		vfShallow(v.Elem(), &h)
		visit(p, h)
		vfWalk(v.Elem(), seen, skip, visit)
	case reflect.Interface:
		if !v.IsNil() {
			vfWalk(v.Elem(), seen, skip, visit)
		}
	case reflect.Struct:
		t := v.Type()
		if pp := t.PkgPath(); pp == "sync" || pp == "sync/atomic" || pp == "time" {
			return
		}
		for i := 0; i < v.NumField(); i++ {
			vfWalk(v.Field(i), seen, skip, visit)
		}
	case reflect.Array:
		for i := 0; i < v.Len(); i++ {
			vfWalk(v.Index(i), seen, skip, visit)
		}
	case reflect.Slice:
		if v.IsNil() || v.Len() == 0 {
			return
		}
		p := unsafe.Pointer(v.Pointer())
		if skip[p] {
			return
		}
		if !seen[p] {
			seen[p] = true
			var h uint64 = 14695981039346656037
			for i := 0; i < v.Len(); i++ {
				vfShallow(v.Index(i), &h)
			}
			visit(p, h)
		}
		ek := v.Type().Elem().Kind()
		if ek == reflect.Ptr || ek == reflect.Struct || ek == reflect.Slice || ek == reflect.Interface || ek == reflect.Map {
			for i := 0; i < v.Len(); i++ {
				vfWalk(v.Index(i), seen, skip, visit)
			}
		}
	case reflect.Map:
		if v.IsNil() {
			return
		}
		p := unsafe.Pointer(v.Pointer())
		if seen[p] || skip[p] {
			return
		}
		seen[p] = true
		keys := v.MapKeys()
		strs := make([]string, len(keys))
		for i, k := range keys {
			var h uint64 = 14695981039346656037
			vfShallow(k, &h)
			vfShallow(v.MapIndex(k), &h)
			strs[i] = fmt.Sprint(h)
		}
		sort.Strings(strs)
		f := fnv.New64a()
		for _, s := range strs {
			f.Write([]byte(s))
		}
		visit(p, f.Sum64())
		for _, k := range keys {
			vfWalk(v.MapIndex(k), seen, skip, visit)
		}
	}
}

func vfPtrOf(x any) unsafe.Pointer {
	v := reflect.ValueOf(x)
	switch v.Kind() {
	case reflect.Ptr, reflect.Map, reflect.Slice, reflect.Chan, reflect.UnsafePointer:
		return unsafe.Pointer(v.Pointer())
	}
	return nil
}

// vfJournalStart: from now on writes are recorded (gse) / a deep snapshot of roots is taken (native).
func vfJournalStart(roots ...any) {
	vfSnapshot = vfSnap{}
	seen := map[unsafe.Pointer]bool{}
	for _, r := range roots {
		vfWalk(reflect.ValueOf(r), seen, nil, func(p unsafe.Pointer, h uint64) { vfSnapshot[p] = h })
	}
}

// vfWritten: was anything reachable from root (not descending into skip) modified since vfJournalStart?
func vfWritten(root any, skip ...any) bool {
	sk := map[unsafe.Pointer]bool{}
	for _, s := range skip {
		if p := vfPtrOf(s); p != nil {
			sk[p] = true
		}
	}
	changed := false
	vfWalk(reflect.ValueOf(root), map[unsafe.Pointer]bool{}, sk, func(p unsafe.Pointer, h uint64) {
		if old, ok := vfSnapshot[p]; !ok || old != h {
			changed = true
		}
	})
	return changed
}

// vfFreshlyDistinct: gse: a and b come from different fillRand calls; native: they differ.
func vfFreshlyDistinct(a, b []byte) bool {
	if len(a) != len(b) {
		return false
	}
	for i := range a {
		if a[i] != b[i] {
			return true
		}
	}
	return false
}
